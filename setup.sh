#!/bin/sh
# Build the overlay venv used by every check: /venv (numpy, scipy, pytz, yaml)
# plus z3-solver / cvc5 / crosshair-tool from the offline wheelhouse.
set -e
cd "$(dirname "$0")"
if [ -x .venv/bin/python ] && .venv/bin/python -c "import z3, numpy, scipy, pytz, yaml" 2>/dev/null; then
  exit 0
fi
rm -rf .venv
/venv/bin/python -m venv .venv
SP=$(.venv/bin/python -c "import sysconfig; print(sysconfig.get_paths()['purelib'])")
echo "import site; site.addsitedir('/venv/lib/python3.12/site-packages')" > "$SP/_overlay.pth"
PIP_NO_INDEX=1 .venv/bin/pip install -q --no-index --find-links /opt/veriftools/wheels z3-solver cvc5 crosshair-tool >/dev/null 2>&1 || \
PIP_NO_INDEX=1 .venv/bin/pip install -q --no-index --find-links /opt/veriftools/wheels z3-solver
.venv/bin/python -c "import z3, numpy, scipy, pytz, yaml; print('overlay venv ready: z3', z3.get_version_string())"
