"""loader -- import spowtd modules from /repo's *current* source with shims bound.

``load('spowtd.classify', mode='R')`` reads the file, applies a small AST
transformation, compiles it into a fresh module object and rebinds the library
names that the module itself imported (``np`` ...) plus a few builtins (``int``,
``float``, ``set`` ...) to engine-aware versions.  Nothing under /repo is
modified.

AST transformation (and nothing else):
  * set displays / set comprehensions -> engine-aware ``SymSet`` (so that
    ``set.pop()`` order is a non-deterministic choice explored by the engine);
  * R-mode only: float literals -> exact rationals (``1.0`` -> ``Q('1.0')``).
"""

import ast
import builtins
import hashlib
import math
import os
import sys
import types
from fractions import Fraction

from . import symx, nplite
from .symx import ShimGap, Sym, SymBool, SymInt, SymReal, SymF64

REPO = os.environ.get('SPOWTD_REPO', '/repo')


# ---- engine-aware builtins --------------------------------------------------
class SymSet:
    """A set whose pop() order is chosen by the engine (all orders explored).

    Elements are hashed through the engine (symbolic ints are concretised), so
    membership is exact.  Mirrors the subset of the ``set`` API used by spowtd;
    notably it has no ``append`` -- exactly like the builtin.
    """
    __slots__ = ('_s',)
    __hash__ = None

    def __init__(self, iterable=()):
        self._s = {}
        for x in iterable:
            self.add(x)

    @staticmethod
    def _key(x):
        if isinstance(x, SymInt):
            return int(x)
        if isinstance(x, SymBool):
            return bool(x)
        if isinstance(x, tuple):
            return tuple(SymSet._key(e) for e in x)
        if isinstance(x, (SymReal, SymF64)):
            raise ShimGap('symbolic real in a set')
        hash(x)
        return x

    def add(self, x):
        k = self._key(x)
        self._s.setdefault(k, k)

    def discard(self, x):
        self._s.pop(self._key(x), None)

    def remove(self, x):
        del self._s[self._key(x)]

    def pop(self):
        if not self._s:
            raise KeyError('pop from an empty set')
        keys = list(self._s)
        eng = symx.engine() if symx.have_engine() else None
        i = eng.choose(len(keys), 'setpop') if (eng is not None and not getattr(eng, 'deterministic_pop', False)) else 0
        k = keys[i]
        del self._s[k]
        return k

    def __contains__(self, x):
        try:
            return self._key(x) in self._s
        except TypeError:
            return False

    def __iter__(self):
        return iter(list(self._s))

    def __len__(self):
        return len(self._s)

    def __bool__(self):
        return bool(self._s)

    def __repr__(self):
        return 'SymSet(%r)' % (list(self._s),)

    def __eq__(self, other):
        if isinstance(other, (SymSet, set, frozenset)):
            return set(self._s) == set(SymSet(other)._s)
        return NotImplemented

    def __ne__(self, other):
        r = self.__eq__(other)
        return r if r is NotImplemented else not r

    def copy(self):
        return SymSet(self._s)

    def union(self, *others):
        r = SymSet(self._s)
        for o in others:
            for x in o:
                r.add(x)
        return r

    __or__ = lambda self, o: self.union(o)

    def intersection(self, *others):
        r = SymSet(self._s)
        for o in others:
            so = SymSet(o)
            r = SymSet(k for k in r._s if k in so._s)
        return r

    __and__ = lambda self, o: self.intersection(o)

    def difference(self, *others):
        r = SymSet(self._s)
        for o in others:
            for x in o:
                r.discard(x)
        return r

    __sub__ = lambda self, o: self.difference(o)

    def isdisjoint(self, other):
        so = SymSet(other)
        return not any(k in so._s for k in self._s)

    def issubset(self, other):
        so = SymSet(other)
        return all(k in so._s for k in self._s)

    def update(self, *others):
        for o in others:
            for x in o:
                self.add(x)

    def clear(self):
        self._s.clear()


def _mk_int(float_mode):
    def int_(x=0, base=None):
        if base is not None:
            return builtins.int(x, base)
        if isinstance(x, (SymInt,)):
            return x
        if isinstance(x, (Sym, Fraction)):
            return nplite.trunc(x)
        return builtins.int(x)
    int_._vf_kind = 'i'
    return int_


def _mk_float(float_mode):
    def float_(x=0):
        if isinstance(x, str):
            if float_mode == 'R':
                t = x.strip().lower()
                if t in ('nan', 'inf', '-inf', '+inf', 'infinity', '-infinity'):
                    return builtins.float(x)
                return Fraction(x)
            return builtins.float(x)
        return nplite._cast_scalar(x, nplite.float64)
    float_._vf_kind = 'f'
    return float_


def _round(x, n=None):
    if isinstance(x, SymReal):
        if n is not None:
            raise ShimGap('round(x, n) on a symbolic real')
        # round half to even
        z3 = symx.z3
        fl = z3.ToInt(x.z)
        frac = x.z - z3.ToReal(fl)
        half = z3.RealVal(Fraction(1, 2))
        r = z3.If(frac < half, fl, z3.If(frac > half, fl + 1, z3.If(fl % 2 == 0, fl, fl + 1)))
        return symx.wrap(r)
    if isinstance(x, SymF64):
        if n is not None:
            raise ShimGap('round(x, n) on a symbolic double')
        z3 = symx.z3
        return symx.wrap(z3.ToInt(z3.fpToReal(z3.fpRoundToIntegral(z3.RNE(), x.z))))
    if isinstance(x, SymInt):
        return x
    return builtins.round(x) if n is None else builtins.round(x, n)


def _isinstance(obj, cls):
    """isinstance that lets proxies pass for the number types they stand for."""
    if builtins.isinstance(obj, Sym):
        classes = cls if builtins.isinstance(cls, tuple) else (cls,)
        for c in classes:
            if c is builtins.int and builtins.isinstance(obj, (SymInt,)):
                return True
            if c is builtins.float and builtins.isinstance(obj, (SymReal, SymF64)):
                return True
            if c is builtins.bool and builtins.isinstance(obj, SymBool):
                return True
    if builtins.isinstance(obj, Fraction):
        classes = cls if builtins.isinstance(cls, tuple) else (cls,)
        if builtins.float in classes:
            return True
    return builtins.isinstance(obj, cls)


class _MathShim:
    def floor(self, x):
        if isinstance(x, SymReal):
            return x.floor()
        if isinstance(x, SymF64):
            z3 = symx.z3
            return symx.wrap(z3.ToInt(z3.fpToReal(z3.fpRoundToIntegral(z3.RTN(), x.z))))
        if isinstance(x, SymInt):
            return x
        return math.floor(x)

    def ceil(self, x):
        if isinstance(x, SymReal):
            return x.ceil()
        if isinstance(x, SymF64):
            z3 = symx.z3
            return symx.wrap(z3.ToInt(z3.fpToReal(z3.fpRoundToIntegral(z3.RTP(), x.z))))
        if isinstance(x, SymInt):
            return x
        return math.ceil(x)

    def isfinite(self, x):
        return nplite.isfinite(x)

    def __getattr__(self, name):
        return getattr(math, name)


# ---- AST transformation -------------------------------------------------------
class _Transform(ast.NodeTransformer):
    def __init__(self, lift_floats):
        self.lift_floats = lift_floats

    def visit_Constant(self, node):
        if self.lift_floats and isinstance(node.value, float):
            text = repr(node.value)
            if text in ('inf', '-inf', 'nan'):
                return node
            new = ast.Call(func=ast.Name(id='vfQ_', ctx=ast.Load()),
                           args=[ast.Constant(value=text)], keywords=[])
            return ast.copy_location(new, node)
        return node

    def visit_Set(self, node):
        self.generic_visit(node)
        new = ast.Call(func=ast.Name(id='vfSet_', ctx=ast.Load()),
                       args=[ast.List(elts=node.elts, ctx=ast.Load())], keywords=[])
        return ast.copy_location(new, node)

    def visit_SetComp(self, node):
        self.generic_visit(node)
        gen = ast.GeneratorExp(elt=node.elt, generators=node.generators)
        ast.copy_location(gen, node)
        new = ast.Call(func=ast.Name(id='vfSet_', ctx=ast.Load()), args=[gen], keywords=[])
        return ast.copy_location(new, node)


def source_path(modname):
    return os.path.join(REPO, *modname.split('.')) + '.py'


def source_text(modname):
    with open(source_path(modname), 'rt', encoding='utf-8') as f:
        return f.read()


def source_digest(modnames):
    h = hashlib.sha256()
    for m in sorted(modnames):
        h.update(m.encode())
        h.update(source_text(m).encode())
    return h.hexdigest()[:16]


def function_lines(modname, funcname):
    """(first, last) source lines of a top-level function / method 'Class.method'."""
    tree = ast.parse(source_text(modname))
    parts = funcname.split('.')
    body = tree.body
    node = None
    for p in parts:
        node = next((n for n in body if isinstance(n, (ast.FunctionDef, ast.ClassDef)) and n.name == p), None)
        if node is None:
            return None
        body = node.body
    return (node.lineno, node.end_lineno)


_LOADED = {}


def load(modname, mode='R', bindings=None, fresh=False, submodules=None):
    """Load ``modname`` from /repo's current source, instrumented for ``mode``.

    bindings: extra {global name: object} applied after execution (library stubs).
    submodules: {imported module name: replacement} consulted when the module's
      own ``import`` statements run (e.g. 'spowtd.regrid' -> an instrumented copy).
    """
    key = (modname, mode, id(bindings) if bindings else None)
    if not fresh and key in _LOADED:
        return _LOADED[key]
    path = source_path(modname)
    text = source_text(modname)
    tree = ast.parse(text, filename=path)
    tree = _Transform(lift_floats=(mode == 'R')).visit(tree)
    ast.fix_missing_locations(tree)
    code = compile(tree, path, 'exec')
    mod = types.ModuleType(modname)
    mod.__file__ = path
    mod.__dict__['vfQ_'] = symx.Q
    mod.__dict__['vfSet_'] = SymSet
    mod.__dict__['__builtins__'] = builtins
    # make `import spowtd.x as y` inside the module resolve to instrumented copies
    saved = {}
    submodules = submodules or {}
    ensure_repo_on_path()
    if modname.startswith('spowtd.'):
        import importlib
        importlib.import_module('spowtd')
    for name, repl in submodules.items():
        saved[name] = sys.modules.get(name)
        sys.modules[name] = repl
        if '.' in name:
            pkg, _, leaf = name.rpartition('.')
            if pkg in sys.modules:
                saved[(pkg, leaf)] = getattr(sys.modules[pkg], leaf, None)
                setattr(sys.modules[pkg], leaf, repl)
    try:
        exec(code, mod.__dict__)
    finally:
        for name, old in saved.items():
            if isinstance(name, tuple):
                pkg, leaf = name
                if old is None:
                    try:
                        delattr(sys.modules[pkg], leaf)
                    except AttributeError:
                        pass
                else:
                    setattr(sys.modules[pkg], leaf, old)
            elif old is None:
                sys.modules.pop(name, None)
            else:
                sys.modules[name] = old
    g = mod.__dict__
    if 'np' in g:
        g['np'] = nplite.np
    g['int'] = _mk_int(mode)
    g['float'] = _mk_float(mode)
    g['set'] = SymSet
    g['round'] = _round
    g['isinstance'] = _isinstance
    if 'math' in g:
        g['math'] = _MathShim()
    if bindings:
        for k, v in bindings.items():
            g[k] = v
    _LOADED[key] = mod
    return mod


def ensure_repo_on_path():
    if REPO not in sys.path:
        sys.path.insert(0, REPO)


def real_module(modname):
    """The unmodified repository module with the real libraries (for replay)."""
    ensure_repo_on_path()
    import importlib
    return importlib.import_module(modname)


def fresh_python(code, payload, timeout=600):
    """Run ``code`` in a new interpreter with the unmodified repository on sys.path (for replays of call
    *sequences*: module-level state of the real code must start empty, whatever ran in this process).
    ``payload`` (JSON-able) is available to the code as PAYLOAD; the code prints one JSON document."""
    import json
    import subprocess
    import sys
    prog = ('import sys, json\nsys.path.insert(0, %r)\nPAYLOAD = json.loads(sys.stdin.read())\n' % REPO) + code
    p = subprocess.run([sys.executable, '-c', prog], input=json.dumps(payload), capture_output=True, text=True, timeout=timeout)
    if p.returncode != 0:
        return {'fresh_interpreter_error': (p.stderr or p.stdout)[-800:]}
    try:
        return json.loads(p.stdout.strip().splitlines()[-1])
    except Exception:
        return {'fresh_interpreter_error': 'no JSON in output: %r' % p.stdout[-400:]}
