"""symsql -- an interpreter for the SQL subset spowtd issues, over symx proxies.

Tables are Python lists of row dicts whose cells are proxies or concrete values
(None, int = INTEGER, Fraction/float = REAL, str = TEXT).  Conditions on symbolic
cells fork through the engine; constraint violations raise ``IntegrityError`` as
sqlite3 does.  The schema is whatever the code under test passes to
``executescript`` (i.e. /repo/spowtd/schema.sql as it is now) and the statements
are the strings the code passes to ``execute``: an edit to a view or a query
changes the encoding.  Unknown syntax raises ShimGap.

Checked against the real sqlite3 by vf.conform (same statements, concrete data).
"""

import functools
import re
from fractions import Fraction

from . import symx, nplite
from .symx import ShimGap, Sym, SymBool, SymInt, SymReal, SymF64


class Error(Exception):
    pass


class DatabaseError(Error):
    pass


class IntegrityError(DatabaseError):
    pass


class OperationalError(DatabaseError):
    pass


class ProgrammingError(DatabaseError):
    pass


class InterfaceError(Error):
    pass


# --------------------------------------------------------------------------
# Tokens registry: unique text tokens standing for symbolic values that travel
# through text files (csv) and come back as plain strings
# --------------------------------------------------------------------------
TOKENS = {}


def token(text, value):
    TOKENS[text] = value
    return text


# --------------------------------------------------------------------------
# Lexer
# --------------------------------------------------------------------------
_TOKEN_RE = re.compile(r"""
    (?P<ws>\s+|--[^\n]*)
  | (?P<num>(?:\d+\.\d*(?:[eE][+-]?\d+)?|\.\d+(?:[eE][+-]?\d+)?|\d+[eE][+-]?\d+|\d+))
  | (?P<str>'(?:[^']|'')*')
  | (?P<qid>"(?:[^"]|"")*")
  | (?P<param>\?|:[A-Za-z_][A-Za-z_0-9]*)
  | (?P<id>[A-Za-z_][A-Za-z_0-9]*)
  | (?P<op><=|>=|<>|!=|==|\|\||[-+*/%(),.;<>=])
""", re.X)

KEYWORDS = {
    'select', 'from', 'where', 'join', 'on', 'using', 'as', 'and', 'or', 'not', 'null', 'is', 'in',
    'exists', 'insert', 'into', 'values', 'update', 'set', 'create', 'table', 'view', 'primary', 'key',
    'unique', 'check', 'default', 'references', 'foreign', 'order', 'by', 'group', 'distinct', 'with',
    'cast', 'asc', 'desc', 'pragma', 'true', 'false', 'inner', 'cross', 'left', 'limit', 'having',
    'between', 'like', 'case', 'when', 'then', 'else', 'end', 'delete', 'union', 'all', 'if', 'except', 'intersect',
}


def lex(sql):
    pos = 0
    out = []
    n = len(sql)
    while pos < n:
        m = _TOKEN_RE.match(sql, pos)
        if not m:
            raise ShimGap('SQL lexer: cannot read %r' % sql[pos:pos + 20])
        pos = m.end()
        kind = m.lastgroup
        text = m.group(kind)
        if kind == 'ws':
            continue
        if kind == 'id':
            low = text.lower()
            if low in KEYWORDS:
                out.append(('kw', low))
            else:
                out.append(('id', text))
        elif kind == 'qid':
            out.append(('id', text[1:-1].replace('""', '"')))
        elif kind == 'str':
            out.append(('str', text[1:-1].replace("''", "'")))
        else:
            out.append((kind, text))
    out.append(('eof', ''))
    return out


# --------------------------------------------------------------------------
# Parser (recursive descent) -> small tuple-based AST
# --------------------------------------------------------------------------
class Parser:
    def __init__(self, sql):
        self.toks = lex(sql)
        self.i = 0
        self.nparams = 0

    def peek(self, k=0):
        return self.toks[self.i + k]

    def next(self):
        t = self.toks[self.i]
        self.i += 1
        return t

    def accept(self, kind, text=None):
        t = self.toks[self.i]
        if t[0] == kind and (text is None or t[1] == text):
            self.i += 1
            return t
        return None

    def accept_kw(self, *words):
        t = self.toks[self.i]
        if t[0] == 'kw' and t[1] in words:
            self.i += 1
            return t[1]
        return None

    def expect(self, kind, text=None):
        t = self.accept(kind, text)
        if t is None:
            raise ShimGap('SQL parser: expected %s %r, got %r' % (kind, text, self.toks[self.i]))
        return t

    def expect_kw(self, word):
        if not self.accept_kw(word):
            raise ShimGap('SQL parser: expected %r, got %r' % (word, self.toks[self.i]))

    def ident(self):
        t = self.next()
        if t[0] == 'id':
            return t[1]
        if t[0] == 'kw' and t[1] in ('key', 'end', 'if', 'all', 'left', 'like'):
            return t[1]
        raise ShimGap('SQL parser: identifier expected, got %r' % (t,))

    # ---- statements ---------------------------------------------------------
    def statements(self):
        out = []
        while self.peek()[0] != 'eof':
            if self.accept('op', ';'):
                continue
            out.append(self.statement())
        return out

    def statement(self):
        t = self.peek()
        if t[0] != 'kw':
            raise ShimGap('SQL: statement starting with %r' % (t,))
        if t[1] in ('select', 'with'):
            return self.select_stmt()
        if t[1] == 'insert':
            return self.insert()
        if t[1] == 'update':
            return self.update()
        if t[1] == 'delete':
            self.expect_kw('delete')
            self.expect_kw('from')
            table = self.ident()
            where = self.expr() if self.accept_kw('where') else None
            return ('delete', table, where)
        if t[1] == 'create':
            return self.create()
        if t[1] == 'pragma':
            return self.pragma()
        raise ShimGap('SQL: unsupported statement %r' % t[1])

    def pragma(self):
        self.expect_kw('pragma')
        name = self.ident()
        val = None
        if self.accept('op', '='):
            val = self.next()[1]
        return ('pragma', name.lower(), val)

    def create(self):
        self.expect_kw('create')
        if self.accept_kw('table'):
            name = self.ident()
            self.expect('op', '(')
            cols = []
            cons = []
            while True:
                if self.peek()[0] == 'kw' and self.peek()[1] in ('primary', 'unique', 'foreign', 'check'):
                    cons.append(self.table_constraint())
                else:
                    cols.append(self.column_def())
                if self.accept('op', ','):
                    continue
                self.expect('op', ')')
                break
            return ('create_table', name, cols, cons)
        if self.accept_kw('view'):
            name = self.ident()
            cols = self.name_list() if self.peek() == ('op', '(') else None
            self.expect_kw('as')
            sel = self.select_stmt()
            return ('create_view', name, sel, cols)
        raise ShimGap('SQL: CREATE %r' % (self.peek(),))

    def column_def(self):
        name = self.ident()
        type_words = []
        while self.peek()[0] == 'id':
            type_words.append(self.next()[1])
        col = {'name': name, 'type': ' '.join(type_words).lower(), 'notnull': False, 'pk': False,
               'unique': False, 'default': None, 'has_default': False, 'checks': [], 'ref': None}
        while True:
            if self.accept_kw('not'):
                self.expect_kw('null')
                col['notnull'] = True
            elif self.accept_kw('null'):
                pass
            elif self.accept_kw('primary'):
                self.expect_kw('key')
                col['pk'] = True
            elif self.accept_kw('unique'):
                col['unique'] = True
            elif self.accept_kw('default'):
                col['default'] = self.primary()
                col['has_default'] = True
            elif self.accept_kw('check'):
                self.expect('op', '(')
                col['checks'].append(self.expr())
                self.expect('op', ')')
            elif self.accept_kw('references'):
                tbl = self.ident()
                rc = None
                if self.accept('op', '('):
                    rc = [self.ident()]
                    while self.accept('op', ','):
                        rc.append(self.ident())
                    self.expect('op', ')')
                col['ref'] = (tbl, rc)
            else:
                break
        return col

    def name_list(self):
        self.expect('op', '(')
        names = [self.ident()]
        while self.accept('op', ','):
            names.append(self.ident())
        self.expect('op', ')')
        return names

    def table_constraint(self):
        if self.accept_kw('primary'):
            self.expect_kw('key')
            return ('pk', self.name_list())
        if self.accept_kw('unique'):
            return ('unique', self.name_list())
        if self.accept_kw('check'):
            self.expect('op', '(')
            e = self.expr()
            self.expect('op', ')')
            return ('check', e)
        if self.accept_kw('foreign'):
            self.expect_kw('key')
            cols = self.name_list()
            self.expect_kw('references')
            tbl = self.ident()
            rc = self.name_list() if self.peek() == ('op', '(') else None
            return ('fk', cols, tbl, rc)
        raise ShimGap('SQL: table constraint %r' % (self.peek(),))

    def insert(self):
        self.expect_kw('insert')
        self.expect_kw('into')
        table = self.ident()
        cols = None
        if self.peek() == ('op', '('):
            cols = self.name_list()
        if self.accept_kw('values'):
            rows = []
            while True:
                self.expect('op', '(')
                vals = [self.expr()]
                while self.accept('op', ','):
                    vals.append(self.expr())
                self.expect('op', ')')
                rows.append(vals)
                if not self.accept('op', ','):
                    break
            return ('insert_values', table, cols, rows)
        sel = self.select_stmt()
        return ('insert_select', table, cols, sel)

    def update(self):
        self.expect_kw('update')
        table = self.ident()
        self.expect_kw('set')
        sets = []
        while True:
            c = self.ident()
            self.expect('op', '=')
            sets.append((c, self.expr()))
            if not self.accept('op', ','):
                break
        where = None
        if self.accept_kw('where'):
            where = self.expr()
        return ('update', table, sets, where)

    def select_stmt(self):
        ctes = []
        if self.accept_kw('with'):
            while True:
                name = self.ident()
                self.expect_kw('as')
                self.expect('op', '(')
                sel = self.select_stmt()
                self.expect('op', ')')
                ctes.append((name, sel))
                if not self.accept('op', ','):
                    break
        first = self.select_core()
        parts = []
        while True:
            op = self.accept_kw('except', 'union', 'intersect')
            if not op:
                break
            if op == 'union' and self.accept_kw('all'):
                op = 'union all'
            parts.append((op, self.select_core()))
        order = self.order_by()
        if self.accept_kw('limit'):
            raise ShimGap('SQL: LIMIT')
        if parts:
            return ('compound', ctes, first, parts, order)
        return ('select', ctes) + first + (order,)

    def select_core(self):
        self.expect_kw('select')
        distinct = bool(self.accept_kw('distinct'))
        self.accept_kw('all')
        items = []
        while True:
            if self.accept('op', '*'):
                items.append(('star', None, None))
            else:
                e = self.expr()
                alias = None
                if self.accept_kw('as'):
                    alias = self.ident()
                elif self.peek()[0] == 'id':
                    alias = self.next()[1]
                items.append(('expr', e, alias))
            if not self.accept('op', ','):
                break
        sources = []
        if self.accept_kw('from'):
            sources.append(('first', self.table_ref(), None, None))
            while True:
                if self.accept('op', ','):
                    sources.append(('join', self.table_ref(), None, None))
                    continue
                kw = self.accept_kw('join', 'inner', 'cross', 'left')
                if not kw:
                    break
                if kw == 'left':
                    raise ShimGap('SQL: LEFT JOIN')
                if kw in ('inner', 'cross'):
                    self.expect_kw('join')
                ref = self.table_ref()
                on = None
                using = None
                if self.accept_kw('on'):
                    on = self.expr()
                elif self.accept_kw('using'):
                    using = self.name_list()
                sources.append(('join', ref, on, using))
        where = self.expr() if self.accept_kw('where') else None
        group = None
        if self.accept_kw('group'):
            self.expect_kw('by')
            group = [self.expr()]
            while self.accept('op', ','):
                group.append(self.expr())
        if self.accept_kw('having'):
            raise ShimGap('SQL: HAVING')
        return (distinct, items, sources, where, group)

    def order_by(self):
        order = None
        if self.accept_kw('order'):
            self.expect_kw('by')
            order = []
            while True:
                e = self.expr()
                desc = False
                if self.accept_kw('desc'):
                    desc = True
                else:
                    self.accept_kw('asc')
                order.append((e, desc))
                if not self.accept('op', ','):
                    break
        return order

    def table_ref(self):
        if self.accept('op', '('):
            sel = self.select_stmt()
            self.expect('op', ')')
            alias = None
            if self.accept_kw('as'):
                alias = self.ident()
            elif self.peek()[0] == 'id':
                alias = self.next()[1]
            self._anon = getattr(self, '_anon', 0) + 1
            return (('subquery', sel), alias or '(subquery %d)' % self._anon)
        name = self.ident()
        alias = None
        if self.accept_kw('as'):
            alias = self.ident()
        elif self.peek()[0] == 'id':
            alias = self.next()[1]
        return (name, alias or name)

    # ---- expressions ----------------------------------------------------------------
    def expr(self):
        return self.or_expr()

    def or_expr(self):
        e = self.and_expr()
        while self.accept_kw('or'):
            e = ('or', e, self.and_expr())
        return e

    def and_expr(self):
        e = self.not_expr()
        while self.accept_kw('and'):
            e = ('and', e, self.not_expr())
        return e

    def not_expr(self):
        if self.peek() == ('kw', 'not') and self.peek(1) != ('kw', 'exists'):
            self.next()
            return ('not', self.not_expr())
        return self.cmp_expr()

    def cmp_expr(self):
        e = self.add_expr()
        while True:
            t = self.peek()
            if t[0] == 'op' and t[1] in ('=', '==', '<>', '!=', '<', '<=', '>', '>='):
                self.next()
                op = {'==': '=', '!=': '<>'}.get(t[1], t[1])
                e = ('cmp', op, e, self.add_expr())
            elif t == ('kw', 'is'):
                self.next()
                neg = bool(self.accept_kw('not'))
                self.expect_kw('null')
                e = ('isnull', e, neg)
            elif t == ('kw', 'in'):
                self.next()
                self.expect('op', '(')
                vals = [self.expr()]
                while self.accept('op', ','):
                    vals.append(self.expr())
                self.expect('op', ')')
                e = ('in', e, vals)
            elif t == ('kw', 'between') or (t == ('kw', 'not') and self.peek(1) == ('kw', 'between')):
                neg = t[1] == 'not'
                self.next()
                if neg:
                    self.next()
                lo = self.add_expr()
                self.expect_kw('and')
                hi = self.add_expr()
                rng = ('and', ('cmp', '>=', e, lo), ('cmp', '<=', e, hi))
                e = ('not', rng) if neg else rng
            else:
                return e

    def add_expr(self):
        e = self.mul_expr()
        while True:
            t = self.peek()
            if t[0] == 'op' and t[1] in ('+', '-'):
                self.next()
                e = ('bin', t[1], e, self.mul_expr())
            elif t == ('op', '||'):
                raise ShimGap('SQL: ||')
            else:
                return e

    def mul_expr(self):
        e = self.unary()
        while True:
            t = self.peek()
            if t[0] == 'op' and t[1] in ('*', '/', '%'):
                self.next()
                e = ('bin', t[1], e, self.unary())
            else:
                return e

    def unary(self):
        if self.accept('op', '-'):
            return ('neg', self.unary())
        if self.accept('op', '+'):
            return self.unary()
        return self.primary()

    def primary(self):
        t = self.next()
        if t[0] == 'num':
            txt = t[1]
            if re.fullmatch(r'\d+', txt):
                return ('lit', int(txt))
            return ('real', txt)
        if t[0] == 'str':
            return ('lit', t[1])
        if t[0] == 'param':
            if t[1] == '?':
                self.nparams += 1
                return ('param', self.nparams - 1)
            return ('nparam', t[1][1:])
        if t == ('op', '('):
            if self.peek()[0] == 'kw' and self.peek()[1] in ('select', 'with'):
                sel = self.select_stmt()
                self.expect('op', ')')
                return ('subquery', sel)
            e = self.expr()
            self.expect('op', ')')
            return e
        if t[0] == 'kw':
            if t[1] == 'null':
                return ('lit', None)
            if t[1] == 'true':
                return ('lit', 1)
            if t[1] == 'false':
                return ('lit', 0)
            if t[1] == 'exists' or (t[1] == 'not' and self.peek() == ('kw', 'exists')):
                neg = t[1] == 'not'
                if neg:
                    self.next()
                self.expect('op', '(')
                sel = self.select_stmt()
                self.expect('op', ')')
                return ('exists', sel, neg)
            if t[1] == 'cast':
                self.expect('op', '(')
                e = self.expr()
                self.expect_kw('as')
                words = []
                while self.peek()[0] == 'id':
                    words.append(self.next()[1].lower())
                self.expect('op', ')')
                return ('cast', e, ' '.join(words))
            if t[1] == 'case':
                raise ShimGap('SQL: CASE')
            raise ShimGap('SQL: unexpected keyword %r in expression' % t[1])
        if t[0] == 'id':
            name = t[1]
            if self.accept('op', '('):
                # function call
                distinct = bool(self.accept_kw('distinct'))
                args = []
                if self.accept('op', '*'):
                    args = ['*']
                elif self.peek() != ('op', ')'):
                    args.append(self.expr())
                    while self.accept('op', ','):
                        args.append(self.expr())
                self.expect('op', ')')
                if self.peek()[0] == 'id' and self.peek()[1].lower() == 'over':
                    # window function: only row_number() OVER (ORDER BY ...) (no PARTITION BY, no frames)
                    self.next()
                    self.expect('op', '(')
                    if self.peek()[0] == 'id' and self.peek()[1].lower() == 'partition':
                        raise ShimGap('SQL: PARTITION BY')
                    worder = self.order_by()
                    self.expect('op', ')')
                    if name.lower() != 'row_number' or args or not worder:
                        raise ShimGap('SQL: window function %s' % name)
                    return ('window', name.lower(), tuple((e, d) for e, d in worder))
                return ('call', name.lower(), args, distinct)
            if self.accept('op', '.'):
                col = self.ident()
                return ('col', name, col)
            return ('col', None, name)
        raise ShimGap('SQL: unexpected token %r' % (t,))


_PARSE_CACHE = {}


def parse(sql):
    hit = _PARSE_CACHE.get(sql)
    if hit is None:
        p = Parser(sql)
        hit = p.statements()
        _PARSE_CACHE[sql] = hit
    return hit


AGGREGATES = {'min', 'max', 'sum', 'avg', 'count', 'total'}


def window_nodes(e, acc):
    """Window-function nodes of an expression (not descending into subqueries)."""
    if not isinstance(e, (tuple, list)):
        return acc
    if isinstance(e, tuple) and e and e[0] == 'window':
        acc.append(e)
        return acc
    if isinstance(e, tuple) and e and e[0] in ('subquery', 'exists'):
        return acc
    for x in (e[1:] if isinstance(e, tuple) else e):
        window_nodes(x, acc)
    return acc


def has_aggregate(e):
    if not isinstance(e, tuple):
        return False
    if e[0] == 'window':
        return False
    if e[0] == 'call' and e[1] in AGGREGATES and not (e[1] in ('min', 'max') and len(e[2]) > 1):
        return True
    if e[0] in ('subquery', 'exists'):
        return False
    return any(has_aggregate(x) for x in e[1:] if isinstance(x, (tuple, list)) and not isinstance(x, str)) or \
        any(has_aggregate(y) for x in e[1:] if isinstance(x, list) for y in x)


# --------------------------------------------------------------------------
# Values
# --------------------------------------------------------------------------
def is_real(v):
    return isinstance(v, (Fraction, float, SymReal, SymF64))


def is_int(v):
    return isinstance(v, (int, SymInt)) and not isinstance(v, bool)


def is_num(v):
    return is_real(v) or is_int(v) or isinstance(v, (bool, SymBool))


def real_lit(text):
    if nplite.float_mode() == 'R':
        return Fraction(text if not text.endswith('.') else text + '0') if 'e' not in text.lower() else Fraction(float(text))
    return float(text)


def to_real(v):
    if isinstance(v, (bool, SymBool)):
        v = to_sqlint(v)
    if is_real(v):
        return v
    return nplite._cast_scalar(v, nplite.float64)


def to_sqlint(v):
    if isinstance(v, SymBool):
        return v.as_int()
    if isinstance(v, bool):
        return int(v)
    return v


def affinity(type_name):
    t = (type_name or '').upper()
    if 'INT' in t:
        return 'INTEGER'
    if 'CHAR' in t or 'CLOB' in t or 'TEXT' in t:
        return 'TEXT'
    if 'BLOB' in t or t == '':
        return 'BLOB'
    if 'REAL' in t or 'FLOA' in t or 'DOUB' in t:
        return 'REAL'
    return 'NUMERIC'


def _unwrap_to_real(v):
    """SymReal that is syntactically ToReal(int term) -> that SymInt, else None."""
    z3 = symx.z3
    if isinstance(v, SymReal):
        z = z3.simplify(v.z)
        if z3.is_app(z) and z.decl().kind() == z3.Z3_OP_TO_REAL:
            return symx.wrap(z.arg(0))
        r = z3.simplify(z3.IsInt(z))
        if z3.is_true(r):
            return symx.wrap(z3.simplify(z3.ToInt(z)))
    return None


def adapt(v):
    """Python value bound as a parameter -> SQL value (what sqlite3 would store)."""
    if v is None or isinstance(v, (str, Sym, Fraction)):
        return v
    if isinstance(v, bool):
        return int(v)
    if isinstance(v, int):
        return v
    if isinstance(v, float):
        if nplite.float_mode() == 'R':
            return symx._to_fraction(v)
        return v
    try:
        import numpy as _np
        if isinstance(v, _np.floating):
            return adapt(float(v))
        if isinstance(v, _np.generic):
            raise ProgrammingError("Error binding parameter: type '%s' is not supported" % type(v).__name__)
    except ImportError:
        pass
    if isinstance(v, nplite.ndarray):
        raise ProgrammingError("Error binding parameter: type 'ndarray' is not supported")
    raise ProgrammingError("Error binding parameter: type '%s' is not supported" % type(v).__name__)


def apply_affinity(v, aff):
    if v is None:
        return None
    if isinstance(v, str) and v in TOKENS:
        v = TOKENS[v]
    v = to_sqlint(v)
    if aff in ('INTEGER', 'NUMERIC'):
        if isinstance(v, str):
            try:
                v = int(v)
            except ValueError:
                try:
                    v = real_lit(v.strip())
                except (ValueError, ZeroDivisionError):
                    return v
        if isinstance(v, Fraction) and v.denominator == 1:
            return int(v)
        if isinstance(v, float) and v.is_integer() and abs(v) < 2 ** 63:
            return int(v)
        if isinstance(v, SymReal):
            u = _unwrap_to_real(v)
            if u is not None:
                return u
        return v
    if aff == 'REAL':
        if isinstance(v, str):
            try:
                return real_lit(v.strip())
            except (ValueError, ZeroDivisionError):
                return v
        if is_int(v):
            return to_real(v)
        return v
    if aff == 'TEXT':
        if is_num(v) and not isinstance(v, Sym):
            return str(v) if not isinstance(v, Fraction) else repr(float(v))
        return v
    return v


def truth(v):
    """SQL truth value -> True / False / None(NULL) / SymBool."""
    if v is None:
        return None
    if isinstance(v, (bool, SymBool)):
        return v
    if isinstance(v, str):
        try:
            return float(v) != 0
        except ValueError:
            return False
    return v != 0


def concrete_bool(v):
    """Decide a SQL condition for filtering: NULL counts as false; symbolic forks."""
    t = truth(v)
    if t is None:
        return False
    return bool(t)


def sql_eq(a, b):
    if a is None or b is None:
        return None
    if isinstance(a, str) or isinstance(b, str):
        if isinstance(a, str) and isinstance(b, str):
            return a == b
        return False
    return to_sqlint(a) == to_sqlint(b)


def same_key(a, b):
    """Grouping / DISTINCT / uniqueness equality (NULLs equal for grouping)."""
    if a is None or b is None:
        return a is None and b is None
    r = sql_eq(a, b)
    return bool(r)


def sql_cmp(op, a, b):
    if a is None or b is None:
        return None
    sa, sb = isinstance(a, str), isinstance(b, str)
    if sa != sb:
        # numbers sort before text
        lt = sb
        return {'=': False, '<>': True, '<': lt, '<=': lt, '>': not lt, '>=': not lt}[op]
    a, b = to_sqlint(a), to_sqlint(b)
    if op == '=':
        return a == b
    if op == '<>':
        return a != b
    if op == '<':
        return a < b
    if op == '<=':
        return a <= b
    if op == '>':
        return a > b
    if op == '>=':
        return a >= b
    raise ShimGap('SQL comparison %r' % op)


def sql_arith(op, a, b):
    if a is None or b is None:
        return None
    if isinstance(a, str) or isinstance(b, str):
        raise ShimGap('SQL arithmetic on text')
    a, b = to_sqlint(a), to_sqlint(b)
    if op == '/':
        if is_int(a) and is_int(b):
            # integer division truncating toward zero; NULL on zero
            if not isinstance(b, Sym) and b == 0:
                return None
            if isinstance(a, Sym) or isinstance(b, Sym):
                if isinstance(b, Sym) and bool(b == 0):
                    return None
                q = a // b
                # python floors; sqlite truncates
                if bool((a % b != 0) & ((a < 0) != (b < 0))) if isinstance((a % b != 0), Sym) or isinstance((a < 0), Sym) else ((a % b != 0) and ((a < 0) != (b < 0))):
                    q = q + 1
                return q
            q = abs(a) // abs(b)
            return q if (a < 0) == (b < 0) else -q
        a, b = to_real(a), to_real(b)
        if not isinstance(b, Sym) and b == 0:
            return None
        if isinstance(b, Sym) and bool(b == 0):
            return None
        return a / b
    if op == '%':
        if is_int(a) and is_int(b):
            if not isinstance(b, Sym) and b == 0:
                return None
            if isinstance(a, Sym) or isinstance(b, Sym):
                raise ShimGap('SQL % on symbolic integers')
            r = abs(a) % abs(b)
            return r if a >= 0 else -r
        raise ShimGap('SQL % on reals')
    if is_real(a) or is_real(b):
        a, b = to_real(a), to_real(b)
    if op == '+':
        return a + b
    if op == '-':
        return a - b
    if op == '*':
        return a * b
    raise ShimGap('SQL operator %r' % op)


def order_cmp(a, b):
    """Total order of SQLite's ORDER BY: NULL < numbers < text."""
    def rank(v):
        return 0 if v is None else 2 if isinstance(v, str) else 1
    ra, rb = rank(a), rank(b)
    if ra != rb:
        return -1 if ra < rb else 1
    if ra == 0:
        return 0
    if ra == 2:
        return -1 if a < b else (1 if a > b else 0)
    a, b = to_sqlint(a), to_sqlint(b)
    if bool(a < b):
        return -1
    if bool(a > b):
        return 1
    return 0


# --------------------------------------------------------------------------
# Database
# --------------------------------------------------------------------------
class Table:
    def __init__(self, name, cols, cons):
        self.name = name
        self.cols = cols
        self.colnames = [c['name'] for c in cols]
        self.aff = {c['name']: affinity(c['type']) for c in cols}
        self.rows = []
        self.pk = None
        self.uniques = []
        self.checks = []
        self.fks = []
        for c in cols:
            if c['pk']:
                self.pk = [c['name']]
            if c['unique']:
                self.uniques.append([c['name']])
            for ch in c['checks']:
                self.checks.append(ch)
            if c['ref']:
                self.fks.append(([c['name']], c['ref'][0], c['ref'][1]))
        for k in cons:
            if k[0] == 'pk':
                self.pk = k[1]
            elif k[0] == 'unique':
                self.uniques.append(k[1])
            elif k[0] == 'check':
                self.checks.append(k[1])
            elif k[0] == 'fk':
                self.fks.append((k[1], k[2], k[3]))
        self.rowid_alias = None
        if self.pk and len(self.pk) == 1:
            c = next(c for c in cols if c['name'] == self.pk[0])
            if c['type'].strip().lower() == 'integer':
                self.rowid_alias = self.pk[0]

    def scan(self):
        """Rows in rowid order."""
        if self.rowid_alias and len(self.rows) > 1:
            k = self.rowid_alias
            if all(isinstance(r[k], int) for r in self.rows):
                return sorted(self.rows, key=lambda r: r[k])
            return sorted(self.rows, key=functools.cmp_to_key(lambda a, b: order_cmp(a[k], b[k])))
        return list(self.rows)


class Database:
    def __init__(self):
        self.tables = {}
        self.views = {}
        self.foreign_keys = False
        self.view_columns = {}
        self.log = []          # statements executed (kind, table)
        self.journal = None

    def copy_state(self):
        return {n: [dict(r) for r in t.rows] for n, t in self.tables.items()}

    def clone(self):
        """Independent copy (tables share their parsed definitions, rows are copied)."""
        import copy
        d = Database()
        for n, t in self.tables.items():
            t2 = copy.copy(t)
            t2.rows = [dict(r) for r in t.rows]
            d.tables[n] = t2
        d.views = dict(self.views)
        d.view_columns = dict(self.view_columns)
        d.foreign_keys = self.foreign_keys
        return d


class Connection:
    def __init__(self, db=None):
        self.db = db or Database()
        self.isolation_level = ''
        self._snapshot = None

    def cursor(self):
        return Cursor(self)

    def execute(self, sql, params=()):
        return self.cursor().execute(sql, params)

    def executemany(self, sql, seq):
        return self.cursor().executemany(sql, seq)

    def executescript(self, sql):
        return self.cursor().executescript(sql)

    def _begin(self):
        if self._snapshot is None:
            self._snapshot = (self.db.copy_state(), dict(self.db.views), set(self.db.tables))

    def commit(self):
        self._snapshot = None

    def rollback(self):
        if self._snapshot is not None:
            state, views, names = self._snapshot
            for n in list(self.db.tables):
                if n not in names:
                    del self.db.tables[n]
            for n, rows in state.items():
                if n in self.db.tables:
                    self.db.tables[n].rows = rows
            self.db.views = views
            self._snapshot = None

    def close(self):
        pass

    def __enter__(self):
        return self

    def __exit__(self, et, ev, tb):
        if et is None:
            self.commit()
        else:
            self.rollback()
        return False


def connect(path=None, **kw):
    return Connection()


class Cursor:
    arraysize = 1

    def __init__(self, conn):
        self.conn = conn
        self.db = conn.db
        self._rows = []
        self._pos = 0
        self.description = None
        self.rowcount = -1
        self.lastrowid = None

    # ---- DB-API --------------------------------------------------------------------
    def execute(self, sql, params=()):
        stmts = parse(sql)
        if len(stmts) != 1:
            raise ProgrammingError('You can only execute one statement at a time.')
        self._run(stmts[0], params)
        return self

    def executemany(self, sql, seq):
        stmts = parse(sql)
        if len(stmts) != 1:
            raise ProgrammingError('You can only execute one statement at a time.')
        if stmts[0][0] in ('select', 'compound'):
            raise ProgrammingError('executemany() can only execute DML statements.')
        for params in seq:
            self._run(stmts[0], params)
        return self

    def executescript(self, sql):
        for st in parse(sql):
            self._run(st, ())
        return self

    def fetchone(self):
        if self._pos < len(self._rows):
            r = self._rows[self._pos]
            self._pos += 1
            return r
        return None

    def fetchall(self):
        r = self._rows[self._pos:]
        self._pos = len(self._rows)
        return r

    def __iter__(self):
        return self

    def __next__(self):
        r = self.fetchone()
        if r is None:
            raise StopIteration
        return r

    def close(self):
        pass

    # ---- execution ---------------------------------------------------------------------
    def _run(self, st, params):
        kind = st[0]
        self._rows = []
        self._pos = 0
        if isinstance(params, dict):
            env_params = ({}, {k: adapt(v) for k, v in params.items()})
        else:
            plist = list(params)
            env_params = ({i: adapt(v) for i, v in enumerate(plist)}, {})
            self._nparams = len(plist)
        ctx = Ctx(self.db, env_params)
        if kind in ('select', 'compound'):
            cols, rows = ctx.select(st, None)
            self._rows = [tuple(out_value(v) for v in r) for r in rows]
            self.description = [(c,) + (None,) * 6 for c in cols]
            self.db.log.append(('select', None))
        elif kind == 'pragma':
            if st[1] == 'foreign_keys' and st[2] is not None:
                self.db.foreign_keys = str(st[2]).lower() in ('1', 'on', 'true')
            self.db.log.append(('pragma', st[1]))
        elif kind == 'create_table':
            if st[1] in self.db.tables or st[1] in self.db.views:
                raise OperationalError('table %s already exists' % st[1])
            self.conn._begin()
            self.db.tables[st[1]] = Table(st[1], st[2], st[3])
            self.db.log.append(('create_table', st[1]))
        elif kind == 'create_view':
            if st[1] in self.db.tables or st[1] in self.db.views:
                raise OperationalError('view %s already exists' % st[1])
            self.conn._begin()
            self.db.views[st[1]] = st[2]
            if len(st) > 3 and st[3]:
                self.db.view_columns = dict(getattr(self.db, 'view_columns', {}))
                self.db.view_columns[st[1]] = list(st[3])
            self.db.log.append(('create_view', st[1]))
        elif kind == 'insert_values':
            self.conn._begin()
            t = self._table(st[1])
            for vals in st[3]:
                self._insert(t, st[2], [ctx.eval(e, None) for e in vals])
            self.db.log.append(('insert', st[1]))
        elif kind == 'insert_select':
            self.conn._begin()
            t = self._table(st[1])
            cols, rows = ctx.select(st[3], None)
            for r in rows:
                self._insert(t, st[2], list(r))
            self.db.log.append(('insert', st[1]))
        elif kind == 'delete':
            self.conn._begin()
            t = self._table(st[1])
            keep = []
            for row in t.rows:
                if st[2] is None or concrete_bool(ctx.eval(st[2], Scope([(st[1], t.colnames, row)], None))):
                    if self.db.foreign_keys:
                        self._check_no_children(t, row)
                    continue
                keep.append(row)
            self.rowcount = len(t.rows) - len(keep)
            t.rows = keep
            self.db.log.append(('delete', st[1]))
        elif kind == 'update':
            self.conn._begin()
            t = self._table(st[1])
            n = 0
            for row in t.scan():
                scope = Scope([(st[1], t.colnames, row)], None)
                if st[3] is not None and not concrete_bool(ctx.eval(st[3], scope)):
                    continue
                new = dict(row)
                for c, e in st[2]:
                    if c not in t.aff:
                        raise OperationalError('no such column: %s' % c)
                    new[c] = apply_affinity(ctx.eval(e, scope), t.aff[c])
                self._check_row(t, new, exclude=row)
                row.update(new)
                n += 1
            self.rowcount = n
            self.db.log.append(('update', st[1]))
        else:
            raise ShimGap('SQL statement kind %r' % kind)

    def _table(self, name):
        t = self.db.tables.get(name)
        if t is None:
            raise OperationalError('no such table: %s' % name)
        return t

    def _insert(self, t, cols, vals):
        cols = cols or t.colnames
        if len(cols) != len(vals):
            raise OperationalError('%d values for %d columns' % (len(vals), len(cols)))
        row = {}
        for c in t.cols:
            if c['name'] in cols:
                v = vals[cols.index(c['name'])]
            elif c['has_default']:
                v = Ctx(self.db, ({}, {})).eval(c['default'], None)
            else:
                v = None
            row[c['name']] = apply_affinity(v, t.aff[c['name']])
        for c in cols:
            if c not in t.aff:
                raise OperationalError('table %s has no column named %s' % (t.name, c))
        if t.rowid_alias and row[t.rowid_alias] is None:
            existing = [r[t.rowid_alias] for r in t.rows]
            row[t.rowid_alias] = (max(existing) + 1) if existing else 1
        self._check_row(t, row, exclude=None)
        t.rows.append(row)

    def _check_no_children(self, t, row):
        """Foreign keys on: a referenced parent row cannot be deleted."""
        for child in self.db.tables.values():
            for cols, rt, rcols in child.fks:
                if rt != t.name:
                    continue
                rc = rcols or t.pk
                for cr in child.rows:
                    if all(cr[c] is not None and same_key(cr[c], row[k]) for c, k in zip(cols, rc)):
                        raise IntegrityError('FOREIGN KEY constraint failed')

    def _check_row(self, t, row, exclude):
        for c in t.cols:
            if (c['notnull'] or (c['pk'] and t.rowid_alias != c['name'])) and row[c['name']] is None:
                if c['notnull']:
                    raise IntegrityError('NOT NULL constraint failed: %s.%s' % (t.name, c['name']))
        if t.rowid_alias:
            v = row[t.rowid_alias]
            if not is_int(v):
                if isinstance(v, (SymBool, bool)):
                    pass
                else:
                    raise IntegrityError('datatype mismatch')
        keys = ([t.pk] if t.pk else []) + t.uniques
        for key in keys:
            if any(row[k] is None for k in key):
                continue
            for other in t.rows:
                if other is exclude:
                    continue
                if all(same_key(row[k], other[k]) for k in key):
                    raise IntegrityError('UNIQUE constraint failed: %s' % ', '.join('%s.%s' % (t.name, k) for k in key))
        ctx = Ctx(self.db, ({}, {}))
        for ch in t.checks:
            scope = Scope([(t.name, t.colnames, row)], None)
            v = truth(ctx.eval(ch, scope))
            if v is not None and not bool(v):
                raise IntegrityError('CHECK constraint failed: %s' % t.name)
        if self.db.foreign_keys:
            for cols, rt, rcols in t.fks:
                if any(row[c] is None for c in cols):
                    continue
                parent = self.db.tables.get(rt)
                if parent is None:
                    raise OperationalError('no such table: %s' % rt)
                rcols = rcols or parent.pk
                if not any(all(same_key(row[c], pr[rc]) for c, rc in zip(cols, rcols)) for pr in parent.rows):
                    raise IntegrityError('FOREIGN KEY constraint failed')


def out_value(v):
    """SQL value -> what the Python caller receives."""
    if isinstance(v, SymBool):
        return v.as_int()
    if isinstance(v, bool):
        return int(v)
    return v


class Scope:
    """Column bindings of the row(s) being evaluated; parent = enclosing query."""

    def __init__(self, bindings, parent):
        self.bindings = bindings       # list of (alias, colnames, rowdict)
        self.parent = parent

    def lookup(self, table, col):
        s = self
        while s is not None:
            found = []
            for alias, names, row in s.bindings:
                if table is not None and alias.lower() != table.lower():
                    continue
                if col in row:
                    found.append(row[col])
                else:
                    low = col.lower()
                    for n in names:
                        if n.lower() == low:
                            found.append(row[n])
                            break
            if found:
                # USING columns appear in both tables with equal values: take the first
                return found[0]
            s = s.parent
        raise OperationalError('no such column: %s' % ((table + '.') if table else '') + col)


class Ctx:
    def __init__(self, db, params):
        self.db = db
        self.pos, self.named = params
        self.ctes = {}
        self._window_ranks = {}

    # ---- SELECT ----------------------------------------------------------------------------
    def source_rows(self, name):
        if isinstance(name, tuple) and name[0] == 'subquery':
            sub = Ctx(self.db, (self.pos, self.named))
            sub.ctes = dict(self.ctes)
            cols, rows = sub.select(name[1], None)
            return cols, [dict(zip(cols, r)) for r in rows]
        if name in self.ctes:
            cols, rows = self.ctes[name]
            return cols, [dict(zip(cols, r)) for r in rows]
        if name in self.db.tables:
            t = self.db.tables[name]
            return t.colnames, t.scan()
        if name in self.db.views:
            sub = Ctx(self.db, ({}, {}))
            cols, rows = sub.select(self.db.views[name], None)
            declared = getattr(self.db, 'view_columns', {}).get(name)
            if declared:
                if len(declared) != len(cols):
                    raise OperationalError('expected %d columns for %r but got %d' % (len(declared), name, len(cols)))
                cols = list(declared)
            return cols, [dict(zip(cols, r)) for r in rows]
        if name == 'sqlite_master':
            cols = ['type', 'name', 'tbl_name', 'rootpage', 'sql']
            rows = [dict(zip(cols, ('table', n, n, 0, ''))) for n in self.db.tables] + \
                   [dict(zip(cols, ('view', n, n, 0, ''))) for n in self.db.views]
            return cols, rows
        raise OperationalError('no such table: %s' % name)

    def select(self, st, outer):
        saved = dict(self.ctes)
        try:
            for name, sel in st[1]:
                self.ctes[name] = self.select(sel, outer)
            if st[0] == 'compound':
                return self._compound(st[2], st[3], st[4], outer)
            _, ctes, distinct, items, sources, where, group, order = st
            return self._select(distinct, items, sources, where, group, order, outer)
        finally:
            self.ctes = saved

    def _compound(self, first, parts, order, outer):
        """EXCEPT / UNION / INTERSECT: set semantics on whole rows (UNION ALL keeps duplicates);
        ORDER BY may name an output column of the first SELECT or a position."""
        def same(r, q):
            return all(same_key(a, b) for a, b in zip(r, q))

        def dedup(rows):
            out = []
            for r in rows:
                if not any(same(r, u) for u in out):
                    out.append(r)
            return out
        colnames, rows = self._select(*first, None, outer)
        rows = list(rows)
        for op, core in parts:
            c2, r2 = self._select(*core, None, outer)
            if len(c2) != len(colnames):
                raise OperationalError('SELECTs to the left and right of %s do not have the same number of result columns' % op.upper())
            if op == 'union all':
                rows = rows + list(r2)
            elif op == 'union':
                rows = dedup(rows + list(r2))
            elif op == 'except':
                rows = [r for r in dedup(rows) if not any(same(r, q) for q in r2)]
            else:
                rows = [r for r in dedup(rows) if any(same(r, q) for q in r2)]
        if order:
            idx = []
            for e, desc in order:
                if e[0] == 'col' and e[1] is None and e[2] in colnames:
                    idx.append((colnames.index(e[2]), desc))
                elif e[0] == 'lit' and isinstance(e[1], int):
                    idx.append((e[1] - 1, desc))
                else:
                    raise ShimGap('SQL: ORDER BY expression after a compound SELECT')

            def cmp(a, b):
                for i, desc in idx:
                    c = order_cmp(a[i], b[i])
                    if c:
                        return -c if desc else c
                return 0
            rows.sort(key=functools.cmp_to_key(cmp))
        elif any(op != 'union all' for op, _ in parts):
            # sqlite evaluates these through a sorted temporary index: rows come out in key order
            rows.sort(key=functools.cmp_to_key(lambda a, b: next((c for c in (order_cmp(x, y) for x, y in zip(a, b)) if c), 0)))
        return colnames, rows

    def _select(self, distinct, items, sources, where, group, order, outer):
        # FROM / JOIN: left-deep nested loops
        combos = [[]]
        for kind, (tname, alias), on, using in sources:
            names, rows = self.source_rows(tname)
            new = []
            for combo in combos:
                for r in rows:
                    cand = combo + [(alias, names, r)]
                    if using:
                        ok = True
                        for c in using:
                            left = Scope(combo, outer).lookup(None, c)
                            if not concrete_bool(sql_eq(left, r[c])):
                                ok = False
                                break
                        if not ok:
                            continue
                    if on is not None and not concrete_bool(self.eval(on, Scope(cand, outer))):
                        continue
                    new.append(cand)
            combos = new
        if not sources:
            combos = [[]]
        if where is not None:
            combos = [c for c in combos if concrete_bool(self.eval(where, Scope(c, outer)))]
        aggregate = group is not None or any(it[0] == 'expr' and has_aggregate(it[1]) for it in items)
        colnames = []
        for it in items:
            if it[0] == 'star':
                for alias, names, _ in (combos[0] if combos else []):
                    colnames.extend(names)
                if not combos:
                    for kind, (tname, alias), on, using in sources:
                        colnames.extend(self.source_rows(tname)[0])
            else:
                colnames.append(it[2] or (it[1][2] if it[1][0] == 'col' else expr_text(it[1])))
        out = []     # (row tuple, scope-like for ORDER BY)
        if aggregate:
            groups = []
            if group is None:
                groups = [(None, combos)]
            else:
                for c in combos:
                    key = [self.eval(g, Scope(c, outer)) for g in group]
                    for gk, members in groups:
                        if all(same_key(a, b) for a, b in zip(gk, key)):
                            members.append(c)
                            break
                    else:
                        groups.append((key, [c]))
                if group is not None and not groups:
                    groups = []
            for gk, members in groups:
                rowvals = []
                for it in items:
                    if it[0] == 'star':
                        raise ShimGap('SQL: * with aggregates')
                    rowvals.append(self.eval_agg(it[1], members, outer))
                out.append((tuple(rowvals), ('agg', members)))
        else:
            wins = []
            for it in items:
                if it[0] == 'expr':
                    window_nodes(it[1], wins)
            for w in wins:
                # row_number() OVER (ORDER BY ...): rank of the row among the rows of this SELECT
                # (after WHERE); ties are numbered in the order of the scan, as sqlite does
                worder = w[2]
                keyed = [([self.eval(e, Scope(c, outer)) for e, _ in worder], i) for i, c in enumerate(combos)]

                def wcmp(a, b, worder=worder):
                    for x, y, (e, desc) in zip(a[0], b[0], worder):
                        r = order_cmp(x, y)
                        if r:
                            return -r if desc else r
                    return 0
                keyed.sort(key=functools.cmp_to_key(wcmp))
                ranks = {}
                for n, (_, i) in enumerate(keyed):
                    ranks[id(combos[i])] = n + 1
                self._window_ranks[id(w)] = ranks
            for c in combos:
                sc = Scope(c, outer)
                rowvals = []
                for it in items:
                    if it[0] == 'star':
                        for alias, names, r in c:
                            rowvals.extend(r[n] for n in names)
                    else:
                        rowvals.append(self.eval(it[1], sc))
                out.append((tuple(rowvals), ('row', c)))
        if distinct:
            uniq = []
            for r in out:
                if not any(all(same_key(a, b) for a, b in zip(r[0], u[0])) for u in uniq):
                    uniq.append(r)
            out = uniq
        if order:
            def key_of(entry):
                rowvals, (k, src) = entry
                keys = []
                for e, desc in order:
                    # an output alias or column position takes precedence
                    if e[0] == 'col' and e[1] is None and e[2] in colnames:
                        keys.append(rowvals[colnames.index(e[2])])
                    elif e[0] == 'lit' and isinstance(e[1], int):
                        keys.append(rowvals[e[1] - 1])
                    elif k == 'row':
                        keys.append(self.eval(e, Scope(src, outer)))
                    else:
                        keys.append(self.eval_agg(e, src, outer))
                return keys

            keyed = [(key_of(e), e) for e in out]

            def cmp(a, b):
                for (x, y, (e, desc)) in zip(a[0], b[0], order):
                    c = order_cmp(x, y)
                    if c:
                        return -c if desc else c
                return 0
            keyed.sort(key=functools.cmp_to_key(cmp))
            out = [e for _, e in keyed]
        return colnames, [r for r, _ in out]

    # ---- expressions -----------------------------------------------------------------------
    def eval(self, e, scope):
        k = e[0]
        if k == 'lit':
            return e[1]
        if k == 'real':
            return real_lit(e[1])
        if k == 'param':
            if e[1] not in self.pos:
                raise ProgrammingError('Incorrect number of bindings supplied.')
            return self.pos[e[1]]
        if k == 'nparam':
            if e[1] not in self.named:
                raise ProgrammingError('You did not supply a value for binding parameter :%s.' % e[1])
            return self.named[e[1]]
        if k == 'col':
            if scope is None:
                raise OperationalError('no such column: %s' % e[2])
            return scope.lookup(e[1], e[2])
        if k == 'neg':
            v = self.eval(e[1], scope)
            return None if v is None else -to_sqlint(v)
        if k == 'bin':
            return sql_arith(e[1], self.eval(e[2], scope), self.eval(e[3], scope))
        if k == 'cmp':
            return sql_cmp(e[1], self.eval(e[2], scope), self.eval(e[3], scope))
        if k == 'and':
            a = truth(self.eval(e[1], scope))
            if a is False:
                return False
            b = truth(self.eval(e[2], scope))
            if b is False:
                return False
            if a is None or b is None:
                return None
            if a is True:
                return b
            if b is True:
                return a
            return a & b
        if k == 'or':
            a = truth(self.eval(e[1], scope))
            if a is True:
                return True
            b = truth(self.eval(e[2], scope))
            if b is True:
                return True
            if a is None or b is None:
                return None
            if a is False:
                return b
            if b is False:
                return a
            return a | b
        if k == 'not':
            a = truth(self.eval(e[1], scope))
            if a is None:
                return None
            return (not a) if isinstance(a, bool) else ~a
        if k == 'isnull':
            v = self.eval(e[1], scope)
            return (v is not None) if e[2] else (v is None)
        if k == 'in':
            v = self.eval(e[1], scope)
            if v is None:
                return None
            res = False
            for x in e[2]:
                r = sql_eq(v, self.eval(x, scope))
                if r is None:
                    continue
                if r is True:
                    return True
                if r is not False:
                    res = r if res is False else (res | r)
            return res
        if k == 'exists':
            cols, rows = self.select(e[1], scope)
            return (not rows) if e[2] else bool(rows)
        if k == 'subquery':
            cols, rows = self.select(e[1], scope)
            return rows[0][0] if rows else None
        if k == 'cast':
            v = self.eval(e[1], scope)
            aff = affinity(e[2])
            if v is None:
                return None
            if aff == 'REAL':
                if isinstance(v, str):
                    return real_lit(v)
                return to_real(v)
            if aff == 'INTEGER':
                if isinstance(v, str):
                    return int(float(v))
                return nplite.trunc(to_sqlint(v))
            raise ShimGap('SQL: CAST AS %s' % e[2])
        if k == 'window':
            ranks = self._window_ranks.get(id(e))
            if ranks is None or id(scope.bindings) not in ranks:
                raise ShimGap('SQL: window function outside the select list')
            return ranks[id(scope.bindings)]
        if k == 'call':
            name, args = e[1], e[2]
            if name in AGGREGATES and not (name in ('min', 'max') and len(args) > 1):
                raise OperationalError('misuse of aggregate function %s()' % name)
            vals = [self.eval(a, scope) for a in args]
            if name == 'abs':
                return None if vals[0] is None else abs(to_sqlint(vals[0]))
            if name in ('min', 'max'):
                if any(v is None for v in vals):
                    return None
                best = vals[0]
                for v in vals[1:]:
                    if order_cmp(v, best) == (-1 if name == 'min' else 1):
                        best = v
                return best
            if name == 'coalesce':
                return next((v for v in vals if v is not None), None)
            raise ShimGap('SQL function %s()' % name)
        raise ShimGap('SQL expression node %r' % (k,))

    def eval_agg(self, e, members, outer):
        """Evaluate an expression that may contain aggregates over a group."""
        k = e[0]
        if k == 'call' and e[1] in AGGREGATES and not (e[1] in ('min', 'max') and len(e[2]) > 1):
            name, args, distinct = e[1], e[2], e[3]
            if args == ['*']:
                if name != 'count':
                    raise ShimGap('SQL: %s(*)' % name)
                return len(members)
            vals = [self.eval(args[0], Scope(c, outer)) for c in members]
            vals = [to_sqlint(v) for v in vals if v is not None]
            if distinct:
                uniq = []
                for v in vals:
                    if not any(same_key(v, u) for u in uniq):
                        uniq.append(v)
                vals = uniq
            if name == 'count':
                return len(vals)
            if not vals:
                return Fraction(0) if name == 'total' else None
            if name in ('min', 'max'):
                best = vals[0]
                for v in vals[1:]:
                    if order_cmp(v, best) == (-1 if name == 'min' else 1):
                        best = v
                return best
            if name in ('sum', 'total', 'avg'):
                allint = all(is_int(v) for v in vals)
                acc = vals[0] if allint else to_real(vals[0])
                for v in vals[1:]:
                    acc = acc + (v if allint else to_real(v))
                if name == 'sum':
                    return acc
                if name == 'total':
                    return to_real(acc)
                return to_real(acc) / len(vals)
        if k in ('lit', 'real', 'param', 'nparam'):
            return self.eval(e, None)
        if k == 'col':
            # bare column in an aggregate query: value from (an arbitrary) row of the group
            if not members:
                return None
            return Scope(members[0], outer).lookup(e[1], e[2])
        if k == 'bin':
            return sql_arith(e[1], self.eval_agg(e[2], members, outer), self.eval_agg(e[3], members, outer))
        if k == 'neg':
            v = self.eval_agg(e[1], members, outer)
            return None if v is None else -v
        if k == 'cmp':
            return sql_cmp(e[1], self.eval_agg(e[2], members, outer), self.eval_agg(e[3], members, outer))
        if k == 'cast':
            inner = self.eval_agg(e[1], members, outer)
            return self.eval(('cast', ('lit', inner), e[2]), None) if not isinstance(inner, Sym) else \
                (to_real(inner) if affinity(e[2]) == 'REAL' else nplite.trunc(inner))
        if k in ('exists', 'subquery'):
            return self.eval(e, Scope(members[0], outer) if members else outer)
        if k == 'call':
            # scalar function of aggregate expressions, e.g. coalesce(max(x) - min(x) + 1, 0)
            vals = [('lit', self.eval_agg(a, members, outer)) for a in e[2]]
            if any(isinstance(v[1], Sym) for v in vals):
                name = e[1]
                raw = [v[1] for v in vals]
                if name == 'coalesce':
                    return next((v for v in raw if v is not None), None)
                if name == 'abs':
                    return None if raw[0] is None else abs(raw[0])
                raise ShimGap('SQL function %s() of symbolic aggregates' % name)
            return self.eval(('call', e[1], vals, e[3]), None)
        if not has_aggregate(e):
            if not members:
                return self.eval(e, outer) if k in ('exists',) else None
            return self.eval(e, Scope(members[0], outer))
        raise ShimGap('SQL: aggregate inside %r' % (k,))


def expr_text(e):
    k = e[0]
    if k == 'col':
        return e[2]
    if k == 'call':
        return '%s(%s)' % (e[1], ', '.join('*' if a == '*' else expr_text(a) for a in e[2]))
    if k == 'lit':
        return repr(e[1]) if isinstance(e[1], str) else str(e[1])
    return k


def dump(db):
    """Logical dump {table: sorted rows} for comparisons."""
    out = {}
    for n, t in db.tables.items():
        out[n] = [tuple(r[c] for c in t.colnames) for r in t.scan()]
    return out
