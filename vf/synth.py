"""Synthetic spowtd datasets generated from a planted ground truth.

Ground truth: a master recession curve zeta = M(tau) that is piecewise linear with
knots on the sampling lattice, and a constant specific yield Sy.  Every recession
interval is M(a_i .. a_i + n_i); the storm between two recessions raises the level
from M(a_i + n_i) to M(a_{i+1}) and carries rain depth Sy * rise.
"""

import datetime
from fractions import Fraction


def default_master(tau):
    """zeta (mm) after tau steps of recession from the top: piecewise linear."""
    tau = Fraction(tau)
    # slopes (mm per step) by segment of 4 steps: fast at the top, slower below
    slopes = [Fraction(-6), Fraction(-4), Fraction(-3), Fraction(-2), Fraction(-3, 2), Fraction(-1)]
    z = Fraction(120)
    t = Fraction(0)
    for s in slopes:
        if tau <= t + 4:
            return z + s * (tau - t)
        z += 4 * s
        t += 4
    return z + slopes[-1] * (tau - t)


def planted_record(recessions=((2, 8), (0, 9), (4, 8)), storm_steps=2, sy=Fraction(1, 2),
                   master=default_master, step_s=3600, origin=1577836800, lead_dry=1,
                   et_mm_h=Fraction(1, 8), et_cycle=None, tail_dry=0, drizzle_mm_h=Fraction(1, 4), final_jump=None):
    """Build a record.  recessions: sequence of (a_i, n_i) in lattice steps.

    Returns dict with epochs, rain (mm/h per step), et (mm/h per step), zeta (mm per
    instant) as Fractions, plus the planted truth.
    """
    step_h = Fraction(step_s, 3600)
    zeta = []
    rain = []
    events = []
    # lead-in: flat dry steps at the level just below the first recession start
    a0, n0 = recessions[0]
    base = master(a0) - 10
    for _ in range(lead_dry):
        zeta.append(base)
        rain.append(Fraction(0))
    level = base
    for i, (a, n) in enumerate(recessions):
        top = master(a)
        rise = top - level
        depth = sy * rise
        assert rise > 0
        start = len(zeta)
        for k in range(storm_steps):
            zeta.append(level + rise * Fraction(k, storm_steps))
            rain.append(depth / storm_steps / step_h)
        events.append({'kind': 'storm', 'first_step': start, 'steps': storm_steps, 'depth_mm': depth,
                       'initial_zeta': level, 'final_zeta': top})
        start = len(zeta)
        for k in range(n + 1):
            zeta.append(master(a + k))
            if k < n:
                # light rain on the step that follows the storm: the last storm increment
                # ends at a sample whose own step is still rainy, as in field records
                # (otherwise spowtd flags it as an unexplained rise and drops the recession)
                rain.append(Fraction(drizzle_mm_h) if k == 0 else Fraction(0))
        events.append({'kind': 'recession', 'first_sample': start, 'samples': n + 1, 'tau0': a})
        level = master(a + n)
        # the last sample of the recession is the first sample of the next storm
        zeta.pop()
    zeta.append(level)
    for _ in range(tail_dry):
        zeta.append(level)
        rain.append(Fraction(0))
    if final_jump is not None:
        # a rise without rain up to a new maximum of the record (an "unexplained" jump)
        top = max(zeta) + Fraction(final_jump)
        for _ in range(2):
            zeta.append(top)
            rain.append(Fraction(0))
    # one rain/ET value per step; one more level instant than steps is not needed:
    # spowtd's grid is the rain epochs within the level record plus a closing instant
    nsteps = len(rain)
    zeta = zeta[:nsteps + 1]
    epochs = [origin + i * step_s for i in range(nsteps + 1)]
    if et_cycle:
        et = [Fraction(et_cycle[i % len(et_cycle)]) for i in range(nsteps + 1)]
    else:
        et = [Fraction(et_mm_h)] * (nsteps + 1)
    rain = rain + [Fraction(0)]
    return {'epochs': epochs, 'rain': rain, 'et': et, 'zeta': zeta, 'events': events,
            'sy': sy, 'step_s': step_s, 'origin': origin}


def fmt_num(q):
    q = Fraction(q)
    f = float(q)
    if Fraction(f) == q:
        return repr(f)
    return repr(f)


def fmt_time(epoch, utc_offset_s=0):
    dt = datetime.datetime.fromtimestamp(epoch + utc_offset_s, datetime.timezone.utc)
    return dt.strftime('%Y-%m-%d %H:%M:%S')


def to_csv_texts(rec, utc_offset_s=0, drop_level_rows=()):
    """Three CSV texts (precipitation, evapotranspiration, water level)."""
    p = ['Datetime,Precipitation intensity (mm/h)']
    e = ['Datetime,Evapotranspiration (mm/h)']
    z = ['Datetime,Water level (mm)']
    for i, t in enumerate(rec['epochs']):
        p.append('%s,%s' % (fmt_time(t, utc_offset_s), fmt_num(rec['rain'][i])))
        e.append('%s,%s' % (fmt_time(t, utc_offset_s), fmt_num(rec['et'][i])))
        if i not in drop_level_rows:
            z.append('%s,%s' % (fmt_time(t, utc_offset_s), fmt_num(rec['zeta'][i])))
    # spowtd load demands an ET value at the closing grid instant as well
    closing = rec['epochs'][-1] + rec['step_s']
    e.append('%s,%s' % (fmt_time(closing, utc_offset_s), fmt_num(rec['et'][-1])))
    return '\n'.join(p) + '\n', '\n'.join(e) + '\n', '\n'.join(z) + '\n'


SPLINE_PARAMETERS = """specific_yield:
  type: spline
  zeta_knots_mm:
    - -300.0
    - 0.0
    - 60.0
    - 110.0
    - 200.0
  sy_knots:  # Specific yield, dimensionless
    - 0.13
    - 0.29
    - 0.42
    - 0.55
    - 0.71
transmissivity:
  type: spline
  zeta_knots_mm:
    - -300.0
    - 0.0
    - 100.0
    - 1000
  K_knots_km_d:  # Conductivity, km /d
    - 0.005
    - 1.0
    - 50.0
    - 800.0
  minimum_transmissivity_m2_d: 7.5  # Minimum transmissivity, m2 /d
"""

PEATCLSM_PARAMETERS = """specific_yield:
  type: peatclsm
  sd: 0.162
  theta_s: 0.88
  b: 7.4
  psi_s: -0.024
transmissivity:
  type: peatclsm
  Ksmacz0: 7.3  # m/s
  alpha: 3  # dimensionless
  zeta_max_cm: 50.0
"""
