"""symx -- a small dynamic symbolic executor over the z3 Python API.

The repository's functions are *executed* (ordinary CPython) on proxy values
whose payload is a z3 term.  Whenever Python needs a concrete answer
(``bool()``, ``__index__``, ``__hash__`` ...) the engine asks z3 which outcomes
are feasible under the current path condition, takes one and queues the others
as *decision prefixes*; a path is explored by re-executing the harness with its
prefix.  Obligations are discharged with ``prove``: ``pathcond and not cond``
must be unsat.

Two arithmetic modes for non-integer numbers:

* R-mode: mathematical reals (z3 ``Real``), concrete values are ``Fraction``;
* F-mode: IEEE binary64 (z3 ``Float64``, round-nearest-even), concrete values
  are Python floats.
"""

import hashlib
import math
import os
import sys
import time
import traceback
from fractions import Fraction

import z3

sys.set_int_max_str_digits(0)


# --------------------------------------------------------------------------
# Control-flow exceptions (BaseException so that ``except Exception`` in the
# code under test or in a harness never swallows them)
# --------------------------------------------------------------------------
class PathAbort(BaseException):
    """The current path is abandoned (infeasible assumption / dead end)."""


class PathEnd(BaseException):
    """The harness ends the path deliberately (a stated cut)."""


class ShimGap(BaseException):
    """The code under test used a feature the shims do not implement."""


class BudgetExhausted(BaseException):
    """Per-path step budget exhausted."""


RNE = None


def _rne():
    global RNE
    if RNE is None:
        RNE = z3.RNE()
    return RNE


# --------------------------------------------------------------------------
# Helpers on concrete values
# --------------------------------------------------------------------------
def is_sym(x):
    return isinstance(x, Sym)


def Q(text):
    """Exact rational from a decimal literal (used by the loader in R-mode)."""
    return Fraction(text)


def _to_fraction(x):
    if isinstance(x, bool):
        return Fraction(int(x))
    if isinstance(x, (int, Fraction)):
        return Fraction(x)
    if isinstance(x, float):
        if math.isnan(x) or math.isinf(x):
            raise ShimGap('non-finite float %r in R-mode' % (x,))
        return Fraction(x)
    # numpy scalars
    try:
        import numpy as _np
        if isinstance(x, _np.generic):
            return _to_fraction(x.item())
    except ImportError:
        pass
    raise TypeError('cannot convert %r to Fraction' % (x,))


def _num_to_py(expr):
    """Concrete Python value of a z3 numeral / boolean literal, else None."""
    if z3.is_int_value(expr):
        return expr.as_long()
    if z3.is_rational_value(expr):
        return Fraction(expr.numerator_as_long(), expr.denominator_as_long())
    if z3.is_true(expr):
        return True
    if z3.is_false(expr):
        return False
    if z3.is_algebraic_value(expr):
        return None
    return None


# --------------------------------------------------------------------------
# Proxies
# --------------------------------------------------------------------------
class Sym:
    """Base class of symbolic proxies; ``.z`` is the z3 term."""
    __slots__ = ('z', 'n')
    __array_priority__ = 1000

    def __init__(self, z, n=1):
        self.z = z
        self.n = n          # rough size of the term (decides whether simplifying it is worth while)

    def __repr__(self):
        return '%s(%s)' % (type(self).__name__, self.z)

    def __format__(self, spec):
        """Formatting a proxy yields a text *hole*: a token remembering (term, format spec),
        which an oracle reads back from the generated text (engine().fmt_tokens)."""
        eng = engine()
        toks = eng.__dict__.setdefault('fmt_tokens', {})
        tok = '<num:%d>' % len(toks)
        toks[tok] = (self, spec)
        return tok


def wrap(z):
    """Wrap a z3 term into the right proxy, collapsing literals."""
    v = _num_to_py(z)
    if v is not None:
        if z3.is_real(z) and not isinstance(v, bool):
            return Fraction(v)
        return v
    s = z.sort()
    k = s.kind()
    if k == z3.Z3_BOOL_SORT:
        return SymBool(z)
    if k == z3.Z3_INT_SORT:
        return SymInt(z)
    if k == z3.Z3_REAL_SORT:
        return SymReal(z)
    if k == z3.Z3_FLOATING_POINT_SORT:
        return SymF64(z)
    raise TypeError('unsupported sort %s' % s)


def zbool(x):
    if isinstance(x, SymBool):
        return x.z
    if isinstance(x, z3.BoolRef):
        return x
    if isinstance(x, bool):
        return z3.BoolVal(x)
    if isinstance(x, Sym):
        return (x != 0).z if isinstance(x != 0, Sym) else z3.BoolVal(bool(x != 0))
    if isinstance(x, (int, Fraction, float)):
        return z3.BoolVal(bool(x))
    try:
        import numpy as _np
        if isinstance(x, _np.generic):
            return z3.BoolVal(bool(x))
    except ImportError:
        pass
    if getattr(x, 'shape', None) == () and hasattr(x, '_d'):
        return zbool(x._d[0])         # 0-d nplite array (what a ufunc of a 0-d array returns)
    raise TypeError('not a boolean: %r' % (x,))


class SymBool(Sym):
    __slots__ = ()

    def __bool__(self):
        return engine().decide(self.z)

    def __invert__(self):
        return wrap(z3.Not(self.z))

    def __and__(self, other):
        if isinstance(other, bool):
            return self if other else False
        if isinstance(other, SymBool):
            return wrap(z3.And(self.z, other.z))
        return NotImplemented

    __rand__ = __and__

    def __or__(self, other):
        if isinstance(other, bool):
            return True if other else self
        if isinstance(other, SymBool):
            return wrap(z3.Or(self.z, other.z))
        return NotImplemented

    __ror__ = __or__

    def __xor__(self, other):
        if isinstance(other, bool):
            return ~self if other else self
        if isinstance(other, SymBool):
            return wrap(z3.Xor(self.z, other.z))
        return NotImplemented

    __rxor__ = __xor__

    def __eq__(self, other):
        if isinstance(other, (bool, SymBool)):
            return wrap(self.z == zbool(other))
        if isinstance(other, (int, Sym)):
            return self.as_int() == other
        return NotImplemented

    def __ne__(self, other):
        r = self.__eq__(other)
        if r is NotImplemented:
            return r
        return ~r if isinstance(r, SymBool) else (not r)

    def __hash__(self):
        return hash(bool(self))

    def __int__(self):
        return int(bool(self))

    __index__ = __int__

    def as_int(self):
        return wrap(z3.If(self.z, z3.IntVal(1), z3.IntVal(0)))

    # arithmetic on booleans goes through their integer value (forking)
    def __add__(self, other):
        return int(bool(self)) + other

    __radd__ = __add__

    def __sub__(self, other):
        return int(bool(self)) - other

    def __rsub__(self, other):
        return other - int(bool(self))

    def __mul__(self, other):
        return int(bool(self)) * other

    __rmul__ = __mul__

    def __lt__(self, other):
        return int(bool(self)) < other

    def __gt__(self, other):
        return int(bool(self)) > other

    def __le__(self, other):
        return int(bool(self)) <= other

    def __ge__(self, other):
        return int(bool(self)) >= other


def _lift_num(x, want_real):
    """Concrete or proxy number -> z3 arithmetic term (Int or Real)."""
    if isinstance(x, (SymInt, SymReal)):
        return x.z
    if isinstance(x, SymBool):
        return x.as_int().z if isinstance(x.as_int(), Sym) else z3.IntVal(x.as_int())
    if isinstance(x, bool):
        return z3.IntVal(int(x))
    if isinstance(x, int):
        return z3.IntVal(x)
    if isinstance(x, Fraction):
        return z3.RealVal(x)
    if isinstance(x, float):
        return z3.RealVal(_to_fraction(x))
    try:
        import numpy as _np
        if isinstance(x, _np.generic):
            return _lift_num(x.item(), want_real)
    except ImportError:
        pass
    return None


FLOAT_MODE = {'mode': 'R'}


def _f_mode_mix(a, b):
    """In F-mode a symbolic integer meeting a Python float behaves as a double."""
    return FLOAT_MODE['mode'] == 'F' and (isinstance(a, float) or isinstance(b, float))


_FOPS = {'add': '__add__', 'sub': '__sub__', 'mul': '__mul__', 'truediv': '__truediv__', 'mod': '__mod__'}


def _arith(a, b, op, rev=False):
    """Binary arithmetic in R-mode between proxies / concrete numbers."""
    if isinstance(b, SymF64) or isinstance(a, SymF64):
        return NotImplemented
    if _f_mode_mix(a, b):
        x, y = (b, a) if rev else (a, b)
        x = SymF64(_lift_f64(x)) if isinstance(x, Sym) else x
        y = SymF64(_lift_f64(y)) if isinstance(y, Sym) else y
        if op in _FOPS:
            if isinstance(x, SymF64):
                return getattr(x, _FOPS[op])(y)
            return getattr(y, _FOPS[op].replace('__', '__r', 1))(x)
        raise ShimGap('F-mode %s between int proxy and float' % op)
    za = _lift_num(a, False)
    zb = _lift_num(b, False)
    if za is None or zb is None:
        return NotImplemented
    if rev:
        za, zb = zb, za
    if op == 'add':
        r = za + zb
    elif op == 'sub':
        r = za - zb
    elif op == 'mul':
        r = za * zb
    elif op == 'truediv':
        if z3.is_int(za):
            za = z3.ToReal(za)
        if z3.is_int(zb):
            zb = z3.ToReal(zb)
        # division by a symbolic zero must be an explicit path
        dv = _num_to_py(zb)
        if dv is None:
            if engine().decide(zb == 0):
                raise ZeroDivisionError('division by zero')
        elif dv == 0:
            raise ZeroDivisionError('division by zero')
        r = za / zb
    elif op == 'floordiv':
        dv = _num_to_py(zb)
        if dv is None:
            if engine().decide(zb == 0):
                raise ZeroDivisionError('integer division or modulo by zero')
        elif dv == 0:
            raise ZeroDivisionError('integer division or modulo by zero')
        if z3.is_int(za) and z3.is_int(zb):
            # python floor division; z3 div rounds so that remainder >= 0
            if dv is not None and dv > 0:
                r = za / zb
            else:
                if engine().decide(zb > 0):
                    r = za / zb
                else:
                    r = -((-za) / (-zb)) - z3.If((-za) % (-zb) == 0, 0, 0)
                    # floor(a/b) for b<0 == floor((-a)/(-b))
                    r = (-za) / (-zb)
        else:
            if z3.is_int(za):
                za = z3.ToReal(za)
            if z3.is_int(zb):
                zb = z3.ToReal(zb)
            r = z3.ToReal(z3.ToInt(za / zb))
    elif op == 'mod':
        dv = _num_to_py(zb)
        if dv is None:
            if engine().decide(zb == 0):
                raise ZeroDivisionError('modulo by zero')
        elif dv == 0:
            raise ZeroDivisionError('modulo by zero')
        if z3.is_int(za) and z3.is_int(zb):
            if dv is not None and dv > 0:
                r = za % zb
            else:
                if engine().decide(zb > 0):
                    r = za % zb
                else:
                    r = -((-za) % (-zb))
        else:
            if z3.is_int(za):
                za = z3.ToReal(za)
            if z3.is_int(zb):
                zb = z3.ToReal(zb)
            r = za - zb * z3.ToReal(z3.ToInt(za / zb))
    else:
        raise ValueError(op)
    n = getattr(a, 'n', 1) + getattr(b, 'n', 1) + 1
    if n <= SIMPLIFY_LIMIT:
        out = wrap(z3.simplify(r))
        if isinstance(out, Sym):
            out.n = n
        return out
    # re-simplifying an ever growing sum at every step is quadratic: leave big terms alone,
    # and skip the literal checks of wrap() (a big unsimplified term is not a literal)
    if op == 'truediv' or isinstance(a, (SymReal, Fraction, float)) or isinstance(b, (SymReal, Fraction, float)):
        return SymReal(r, n)
    return SymInt(r, n) if z3.is_int(r) else SymReal(r, n)


SIMPLIFY_LIMIT = 60


def _cmp(a, b, op):
    if isinstance(b, SymF64) or isinstance(a, SymF64):
        return NotImplemented
    if _f_mode_mix(a, b):
        x = SymF64(_lift_f64(a)) if isinstance(a, Sym) else a
        y = SymF64(_lift_f64(b)) if isinstance(b, Sym) else b
        pyop = {'lt': '__lt__', 'le': '__le__', 'gt': '__gt__', 'ge': '__ge__', 'eq': '__eq__', 'ne': '__ne__'}[op]
        swap = {'__lt__': '__gt__', '__le__': '__ge__', '__gt__': '__lt__', '__ge__': '__le__', '__eq__': '__eq__', '__ne__': '__ne__'}
        if isinstance(x, SymF64):
            return getattr(x, pyop)(y)
        return getattr(y, swap[pyop])(x)
    za = _lift_num(a, False)
    zb = _lift_num(b, False)
    if za is None or zb is None:
        return NotImplemented
    if op == 'lt':
        r = za < zb
    elif op == 'le':
        r = za <= zb
    elif op == 'gt':
        r = za > zb
    elif op == 'ge':
        r = za >= zb
    elif op == 'eq':
        r = za == zb
    elif op == 'ne':
        r = za != zb
    return wrap(z3.simplify(r))


class SymNum(Sym):
    __slots__ = ()

    def __add__(self, o):
        return _arith(self, o, 'add')

    def __radd__(self, o):
        return _arith(self, o, 'add', rev=True)

    def __sub__(self, o):
        return _arith(self, o, 'sub')

    def __rsub__(self, o):
        return _arith(self, o, 'sub', rev=True)

    def __mul__(self, o):
        return _arith(self, o, 'mul')

    def __rmul__(self, o):
        return _arith(self, o, 'mul', rev=True)

    def __truediv__(self, o):
        return _arith(self, o, 'truediv')

    def __rtruediv__(self, o):
        return _arith(self, o, 'truediv', rev=True)

    def __floordiv__(self, o):
        return _arith(self, o, 'floordiv')

    def __rfloordiv__(self, o):
        return _arith(self, o, 'floordiv', rev=True)

    def __mod__(self, o):
        return _arith(self, o, 'mod')

    def __rmod__(self, o):
        return _arith(self, o, 'mod', rev=True)

    def __divmod__(self, o):
        q = _arith(self, o, 'floordiv')
        if q is NotImplemented:
            return NotImplemented
        return q, _arith(self, o, 'mod')

    def __rdivmod__(self, o):
        q = _arith(self, o, 'floordiv', rev=True)
        if q is NotImplemented:
            return NotImplemented
        return q, _arith(self, o, 'mod', rev=True)

    def __neg__(self):
        return wrap(z3.simplify(-self.z))

    def __pos__(self):
        return self

    def __abs__(self):
        if engine().decide(self.z >= 0):
            return self
        return -self

    def __lt__(self, o):
        return _cmp(self, o, 'lt')

    def __le__(self, o):
        return _cmp(self, o, 'le')

    def __gt__(self, o):
        return _cmp(self, o, 'gt')

    def __ge__(self, o):
        return _cmp(self, o, 'ge')

    def __eq__(self, o):
        if o is None:
            return False
        return _cmp(self, o, 'eq')

    def __ne__(self, o):
        if o is None:
            return True
        return _cmp(self, o, 'ne')

    def __bool__(self):
        return engine().decide(self.z != 0)

    def __pow__(self, o):
        if isinstance(o, int) and not isinstance(o, bool) and 0 <= o <= 4:
            r = 1
            for _ in range(o):
                r = r * self
            return r
        return engine().pow(self, o)

    def __rpow__(self, o):
        return engine().pow(o, self)


class SymInt(SymNum):
    __slots__ = ()

    def __index__(self):
        return engine().concretize(self.z)

    __int__ = __index__

    def __hash__(self):
        return hash(engine().concretize(self.z))

    def __float__(self):
        raise ShimGap('float() of a symbolic integer (rebind float in the module)')

    def __round__(self, n=None):
        return self

    def is_integer(self):
        return True


class SymReal(SymNum):
    __slots__ = ()

    def __hash__(self):
        # every symbolic real lands in the same bucket; dict / set lookups then compare with
        # ==, which forks through the engine: the lookup finds a key iff it can be equal
        return 0

    def __float__(self):
        raise ShimGap('float() of a symbolic real (rebind float in the module)')

    def __int__(self):
        raise ShimGap('int() of a symbolic real (rebind int in the module)')

    def __index__(self):
        raise TypeError('symbolic real cannot be interpreted as an integer')

    def is_integer(self):
        return wrap(z3.IsInt(self.z))

    def floor(self):
        return wrap(z3.ToInt(self.z))

    def ceil(self):
        return wrap(-z3.ToInt(-self.z))

    def __floor__(self):
        return self.floor()

    def __ceil__(self):
        return self.ceil()

    def __trunc__(self):
        if engine().decide(self.z >= 0):
            return self.floor()
        return self.ceil()

    def tolist(self):
        return self

    def item(self):
        return self


# --------------------------------------------------------------------------
# F-mode proxy: IEEE binary64
# --------------------------------------------------------------------------
def F64():
    return z3.Float64()


def _lift_f64(x):
    if isinstance(x, SymF64):
        return x.z
    if isinstance(x, bool):
        return z3.FPVal(float(x), F64())
    if isinstance(x, (int, float)):
        return z3.FPVal(float(x), F64())
    if isinstance(x, Fraction):
        return z3.FPVal(float(x), F64())
    if isinstance(x, SymInt):
        # exact for |x| < 2**53 (harnesses bound their integers accordingly)
        return _int_term_to_fp(x.z)
    try:
        import numpy as _np
        if isinstance(x, _np.generic):
            return z3.FPVal(float(x), F64())
    except ImportError:
        pass
    return None


def _int_term_to_fp(z):
    """Exact Float64 image of an integer term.  Integer variables declared with
    Engine.fint have a bit-vector twin, so that the conversion is a signed
    bit-vector -> double conversion (which bit-blasts) instead of Int -> Real -> FP;
    sums and constant multiples are mapped to exact floating-point operations
    (all values stay far below 2**53 by the harness bounds)."""
    z = z3.simplify(z)
    if z3.is_int_value(z):
        return z3.FPVal(float(z.as_long()), F64())
    atoms = _ENGINE.fp_atoms if _ENGINE is not None else {}
    if z3.is_const(z) and z.decl().name() in atoms:
        return atoms[z.decl().name()]
    if z3.is_add(z):
        parts = [_int_term_to_fp(c) for c in z.children()]
        acc = parts[0]
        for p in parts[1:]:
            acc = z3.fpAdd(_rne(), acc, p)
        return acc
    if z3.is_mul(z) and len(z.children()) == 2 and z3.is_int_value(z.children()[0]):
        return z3.fpMul(_rne(), z3.FPVal(float(z.children()[0].as_long()), F64()), _int_term_to_fp(z.children()[1]))
    return z3.fpToFP(_rne(), z3.ToReal(z), F64())


def _fp_to_py(z):
    if z3.is_fprm_value(z):
        return None
    if z3.is_fp_value(z):
        if z.isNaN():
            return float('nan')
        if z.isInf():
            return float('-inf') if z.isNegative() else float('inf')
        if z.isZero():
            return -0.0 if z.isNegative() else 0.0
        sign = -1 if z.sign() else 1
        sig = z.significand_as_long()
        exp = z.exponent_as_long(biased=True)
        if exp == 0:
            return sign * math.ldexp(sig, -1074)
        return sign * math.ldexp((1 << 52) | sig, exp - 1075)
    return None


def wrapf(z):
    z = z3.simplify(z)
    v = _fp_to_py(z)
    if v is not None:
        return v
    return SymF64(z)


class SymF64(Sym):
    """IEEE double with Python float semantics for the operators used."""
    __slots__ = ()

    def _bin(self, o, fn, rev=False):
        zo = _lift_f64(o)
        if zo is None:
            return NotImplemented
        a, b = (zo, self.z) if rev else (self.z, zo)
        return wrapf(fn(a, b))

    def __add__(self, o):
        return self._bin(o, lambda a, b: z3.fpAdd(_rne(), a, b))

    def __radd__(self, o):
        return self._bin(o, lambda a, b: z3.fpAdd(_rne(), a, b), True)

    def __sub__(self, o):
        return self._bin(o, lambda a, b: z3.fpSub(_rne(), a, b))

    def __rsub__(self, o):
        return self._bin(o, lambda a, b: z3.fpSub(_rne(), a, b), True)

    def __mul__(self, o):
        return self._bin(o, lambda a, b: z3.fpMul(_rne(), a, b))

    def __rmul__(self, o):
        return self._bin(o, lambda a, b: z3.fpMul(_rne(), a, b), True)

    def __truediv__(self, o):
        zo = _lift_f64(o)
        if zo is None:
            return NotImplemented
        if engine().decide(z3.fpIsZero(zo)):
            raise ZeroDivisionError('float division by zero')
        return wrapf(z3.fpDiv(_rne(), self.z, zo))

    def __rtruediv__(self, o):
        zo = _lift_f64(o)
        if zo is None:
            return NotImplemented
        if engine().decide(z3.fpIsZero(self.z)):
            raise ZeroDivisionError('float division by zero')
        return wrapf(z3.fpDiv(_rne(), zo, self.z))

    def __mod__(self, o):
        """Python float %: r = fmod(x, y) (exact); if r != 0 and sign differs
        from y's, r += y (one rounded addition); a zero result takes y's sign."""
        zo = _lift_f64(o)
        if zo is None:
            return NotImplemented
        if engine().decide(z3.fpIsZero(zo)):
            raise ZeroDivisionError('float modulo')
        return wrapf(py_float_mod(self.z, zo))

    def __rmod__(self, o):
        zo = _lift_f64(o)
        if zo is None:
            return NotImplemented
        if engine().decide(z3.fpIsZero(self.z)):
            raise ZeroDivisionError('float modulo')
        return wrapf(py_float_mod(zo, self.z))

    def __divmod__(self, o):
        zo = _lift_f64(o)
        if zo is None:
            return NotImplemented
        if engine().decide(z3.fpIsZero(zo)):
            raise ZeroDivisionError('float divmod()')
        q, r = py_float_divmod(self.z, zo)
        return wrapf(q), wrapf(r)

    def __rdivmod__(self, o):
        zo = _lift_f64(o)
        if zo is None:
            return NotImplemented
        if engine().decide(z3.fpIsZero(self.z)):
            raise ZeroDivisionError('float divmod()')
        q, r = py_float_divmod(zo, self.z)
        return wrapf(q), wrapf(r)

    def __floordiv__(self, o):
        r = self.__divmod__(o)
        return r if r is NotImplemented else r[0]

    def __rfloordiv__(self, o):
        r = self.__rdivmod__(o)
        return r if r is NotImplemented else r[0]

    def __neg__(self):
        return wrapf(z3.fpNeg(self.z))

    def __pos__(self):
        return self

    def __abs__(self):
        return wrapf(z3.fpAbs(self.z))

    def _cmp(self, o, fn):
        zo = _lift_f64(o)
        if zo is None:
            return NotImplemented
        return wrap(z3.simplify(fn(self.z, zo)))

    def __lt__(self, o):
        return self._cmp(o, z3.fpLT)

    def __le__(self, o):
        return self._cmp(o, z3.fpLEQ)

    def __gt__(self, o):
        return self._cmp(o, z3.fpGT)

    def __ge__(self, o):
        return self._cmp(o, z3.fpGEQ)

    def __eq__(self, o):
        if o is None:
            return False
        return self._cmp(o, z3.fpEQ)

    def __ne__(self, o):
        if o is None:
            return True
        r = self._cmp(o, z3.fpEQ)
        return ~r if isinstance(r, SymBool) else (not r)

    def __bool__(self):
        return engine().decide(z3.Not(z3.fpIsZero(self.z)))

    def __hash__(self):
        raise ShimGap('hash of a symbolic double')

    def __float__(self):
        raise ShimGap('float() of a symbolic double')

    def is_integer(self):
        return wrap(z3.simplify(z3.And(
            z3.Not(z3.fpIsNaN(self.z)), z3.Not(z3.fpIsInf(self.z)),
            z3.fpEQ(z3.fpRoundToIntegral(z3.RTZ(), self.z), self.z))))

    def trunc_to_int(self):
        """int(x): truncation toward zero as a z3 Int (x finite)."""
        r = z3.fpToReal(z3.fpRoundToIntegral(z3.RTZ(), self.z))
        return wrap(z3.ToInt(r))


class SymFInt(SymF64):
    """An integer obtained from a double (int(x), round(x)): kept as the integral-valued
    Float64 term so that obligations about it stay inside QF_BVFP.  Hashing it (dict
    lookup) calls the engine's hash hook, where a harness states its obligation."""
    __slots__ = ()

    def __hash__(self):
        hook = engine().hash_hook
        if hook is None:
            raise ShimGap('hash of an integer derived from a symbolic double')
        return hook(self)

    def __index__(self):
        return self.__hash__()

    def __int__(self):
        raise ShimGap('int() of SymFInt (rebind int)')


def py_float_mod(x, y):
    """z3 term for CPython's float ``x % y`` (y != 0)."""
    r = z3.fpRem(x, y)  # IEEE remainder (round-to-nearest quotient) -- NOT fmod
    # Build fmod from IEEE remainder: fmod has the sign of x and |r| < |y|.
    # rem = x - n*y with n = nearest integer; if sign(rem) != sign(x) and rem != 0
    # then fmod = rem + (|y| with the sign of x); this addition is exact.
    ay = z3.fpAbs(y)
    x_neg = z3.fpIsNegative(x)
    adj = z3.If(x_neg, z3.fpNeg(ay), ay)
    need = z3.And(z3.Not(z3.fpIsZero(r)), z3.fpIsNegative(r) != x_neg)
    fm = z3.If(need, z3.fpAdd(_rne(), r, adj), r)
    return _py_mod_from_fmod(fm, y)


def _c_fmod(x, y):
    r = z3.fpRem(x, y)
    ay = z3.fpAbs(y)
    x_neg = z3.fpIsNegative(x)
    adj = z3.If(x_neg, z3.fpNeg(ay), ay)
    need = z3.And(z3.Not(z3.fpIsZero(r)), z3.fpIsNegative(r) != x_neg)
    return z3.If(need, z3.fpAdd(_rne(), r, adj), r)


def py_float_divmod(x, y):
    """z3 terms (floordiv, mod) of CPython's float_divmod (y != 0), operation by operation."""
    fm = _c_fmod(x, y)
    div = z3.fpDiv(_rne(), z3.fpSub(_rne(), x, fm), y)
    adjust = z3.And(z3.Not(z3.fpIsZero(fm)), z3.fpIsNegative(y) != z3.fpIsNegative(fm))
    div = z3.If(adjust, z3.fpSub(_rne(), div, z3.FPVal(1.0, F64())), div)
    fl = z3.fpRoundToIntegral(z3.RTN(), div)
    fl = z3.If(z3.fpGT(z3.fpSub(_rne(), div, fl), z3.FPVal(0.5, F64())), z3.fpAdd(_rne(), fl, z3.FPVal(1.0, F64())), fl)
    quot = z3.fpDiv(_rne(), x, y)
    zero_q = z3.If(z3.fpIsNegative(quot), z3.fpMinusZero(F64()), z3.fpPlusZero(F64()))
    return z3.If(z3.fpIsZero(div), zero_q, fl), _py_mod_from_fmod(fm, y)


def _py_mod_from_fmod(fm, y):
    # CPython: if mod != 0 and (y < 0) != (mod < 0): mod += y; else if mod == 0:
    # mod = copysign(0, y)
    zero = z3.fpIsZero(fm)
    diff_sign = z3.fpIsNegative(y) != z3.fpIsNegative(fm)
    res = z3.If(zero,
                z3.If(z3.fpIsNegative(y), z3.fpMinusZero(F64()), z3.fpPlusZero(F64())),
                z3.If(diff_sign, z3.fpAdd(_rne(), fm, y), fm))
    return res


# --------------------------------------------------------------------------
# Engine
# --------------------------------------------------------------------------
_ENGINE = None


def engine():
    if _ENGINE is None:
        raise RuntimeError('no active symx engine')
    return _ENGINE


def have_engine():
    return _ENGINE is not None


class Failure:
    def __init__(self, kind, label, model, detail, prefix, trace=None):
        self.kind = kind          # 'obligation' | 'exception' | 'inconclusive'
        self.label = label
        self.model = model        # dict name -> python value (repr-able)
        self.detail = detail
        self.prefix = prefix
        self.trace = trace

    def to_json(self):
        return {'kind': self.kind, 'label': self.label, 'model': self.model,
                'detail': self.detail, 'trace': self.trace}


class Stats:
    FIELDS = ('paths', 'aborted', 'forks', 'q_sat', 'q_unsat', 'q_unknown',
              'solver_s', 'obligations', 'discharged', 'failed', 'inconclusive',
              'max_depth', 'ended', 'structural')

    def __init__(self):
        for f in self.FIELDS:
            setattr(self, f, 0)
        self.solver_s = 0.0

    def merge(self, other):
        for f in self.FIELDS:
            if f == 'max_depth':
                self.max_depth = max(self.max_depth, other.max_depth)
            else:
                setattr(self, f, getattr(self, f) + getattr(other, f))

    def as_dict(self):
        d = {f: getattr(self, f) for f in self.FIELDS}
        d['solver_s'] = round(d['solver_s'], 3)
        d['queries'] = self.q_sat + self.q_unsat + self.q_unknown
        return d



# ---- second-opinion dump: a sample of the queries as SMT-LIB2 (tools/crosscheck.py re-solves them) ----
_DUMP_DIR = os.environ.get('VERIF_DUMP_SMT')
_DUMP_EVERY = int(os.environ.get('VERIF_DUMP_EVERY', '40'))
_DUMP_MAX = int(os.environ.get('VERIF_DUMP_MAX', '150'))
_dump_state = {'n': 0, 'written': 0, 'pid': None}


def _dump_query(assertions, result, kind):
    """Write every _DUMP_EVERY-th decided query of this process (at most _DUMP_MAX) with z3's verdict."""
    if not _DUMP_DIR or result not in ('sat', 'unsat'):
        return
    st = _dump_state
    if st['pid'] != os.getpid():
        st.update(n=0, written=0, pid=os.getpid())
    st['n'] += 1
    if kind != 'fp' and st['n'] % _DUMP_EVERY != 1 and _DUMP_EVERY > 1:
        return          # floating-point queries are few and are all kept
    if st['written'] >= _DUMP_MAX:
        return
    st['written'] += 1
    try:
        s = z3.Solver()
        for a in assertions:
            s.add(a)
        text = s.to_smt2()
        if len(text) > 400000:
            return
        os.makedirs(_DUMP_DIR, exist_ok=True)
        path = os.path.join(_DUMP_DIR, '%s-%d-%05d.smt2' % (kind, os.getpid(), st['n']))
        with open(path, 'w') as f:
            f.write('; z3-verdict: %s\n' % result)
            f.write(text)
    except Exception:
        pass


class Engine:
    """One engine per worker process; explores paths of one harness."""

    def __init__(self, query_timeout_ms=20000, logic=None, max_decisions=200000, oneshot_tactic=None):
        self.query_timeout_ms = query_timeout_ms
        self.oneshot_tactic = oneshot_tactic
        self.hash_hook = None
        self.solver = z3.Solver() if logic is None else z3.SolverFor(logic)
        self.solver.set('timeout', query_timeout_ms)
        self.stats = Stats()
        self.max_decisions = max_decisions
        self.vars = {}
        self.reset_path(())
        self.uf_cache = {}
        self.functions_seen = set()
        self.fp_atoms = {}
        self.fp_bv = {}

    # ---- path life-cycle -------------------------------------------------
    def reset_path(self, prefix):
        self.prefix = list(prefix)
        self.decisions = []
        self.known = {}
        self.alternatives = []
        self.path_failures = []
        self.notes = []
        self.path_unknown = False
        self.inputs = {}
        self.axioms_added = set()
        self.lazy = []
        self._uniq = 0
        self.fp_atoms = {}
        self.fp_bv = {}
        self.fp_assertions = []

    def begin(self, prefix):
        self.reset_path(prefix)
        self.solver.push()

    def end(self):
        self.solver.pop()

    # ---- variables --------------------------------------------------------
    def _register(self, name, proxy):
        self.inputs[name] = proxy
        return proxy

    def real(self, name):
        return self._register(name, SymReal(z3.Real(name)))

    def int(self, name):
        return self._register(name, SymInt(z3.Int(name)))

    def bool(self, name):
        return self._register(name, SymBool(z3.Bool(name)))

    def fint(self, name, lo, hi, bits=64):
        """Symbolic integer lo <= x <= hi for F-mode harnesses.

        The Int constant is only a syntactic carrier (sums and differences of epochs
        are simplified structurally); the solver sees its bit-vector twin, so that
        conversions to double are signed-bit-vector -> Float64 conversions and the
        whole path condition stays inside QF_BVFP.  Constraints on such integers must
        be stated on the twins (``fbv``)."""
        x = z3.Int(name)
        bv = z3.BitVec(name + '!bv', bits)
        self.fp_atoms[name] = z3.fpSignedToFP(_rne(), bv, F64())
        self.fp_bv[name] = bv
        self._assert(bv >= lo)
        self._assert(bv <= hi)
        return self._register(name, SymInt(x))

    def fbv(self, name):
        return self.fp_bv[name]

    def prove_oneshot(self, cond, label, detail=None, tactic='qffp', timeout_ms=None):
        """Obligation decided by a fresh non-incremental solver built from a tactic
        (bit-blasting for QF_BVFP is far faster outside the incremental core)."""
        self.stats.obligations += 1
        z = z3.simplify(zbool(cond))
        if z3.is_true(z):
            self.stats.discharged += 1
            self.stats.structural += 1
            return True
        s = z3.Tactic(tactic).solver()
        s.set('timeout', timeout_ms or self.query_timeout_ms)
        for a in list(self.solver.assertions()) + list(self.fp_assertions):
            s.add(a)
        s.add(z3.Not(z))
        t0 = time.perf_counter()
        r = str(s.check())
        self.stats.solver_s += time.perf_counter() - t0
        if _DUMP_DIR:
            _dump_query(s.assertions(), r, 'fp')
        if r == 'unsat':
            self.stats.q_unsat += 1
            self.stats.discharged += 1
            return True
        if r == 'sat':
            self.stats.q_sat += 1
            self.stats.failed += 1
            m = s.model()
            out = self.model_of_inputs(m)
            for name, bv in self.fp_bv.items():
                v = m.eval(bv, model_completion=True)
                out[name] = v.as_signed_long()
            self.path_failures.append(Failure('obligation', label, out, detail if detail is not None else str(z)[:400],
                                              tuple(self.decisions)))
            return False
        self.stats.q_unknown += 1
        self.stats.inconclusive += 1
        self.path_failures.append(Failure('inconclusive', label, None, 'solver answered unknown: ' + str(z)[:300],
                                          tuple(self.decisions)))
        return None

    def f64(self, name):
        return self._register(name, SymF64(z3.FP(name, F64())))

    def uniq(self):
        self._uniq += 1
        return self._uniq

    def fresh_real(self, hint):
        n = '%s!%d' % (hint, len(self.inputs))
        return self.real(n)

    def fresh_int(self, hint):
        n = '%s!%d' % (hint, len(self.inputs))
        return self.int(n)

    # ---- solver ------------------------------------------------------------
    def _check(self, *extra):
        if self.oneshot_tactic and (any(_mentions_fp(e) for e in extra) or (not extra and self.fp_assertions)):
            return self._check_oneshot(*extra)
        t0 = time.perf_counter()
        self.solver.push()
        try:
            for e in extra:
                self.solver.add(e)
            r = self.solver.check()
            res = str(r)
            model = self.solver.model() if res == 'sat' else None
            if _DUMP_DIR:
                _dump_query(self.solver.assertions(), res, 'inc')
        finally:
            self.solver.pop()
        self.stats.solver_s += time.perf_counter() - t0
        if res == 'sat':
            self.stats.q_sat += 1
        elif res == 'unsat':
            self.stats.q_unsat += 1
        else:
            self.stats.q_unknown += 1
        return res, model

    def _check_oneshot(self, *extra):
        """Non-incremental query through a tactic (bit-blasting for QF_BVFP)."""
        t0 = time.perf_counter()
        s = z3.Tactic(self.oneshot_tactic).solver()
        s.set('timeout', self.query_timeout_ms)
        # floating-point / bit-vector constraints live in fp_assertions; the other
        # assertions of the path are about disjoint symbols and are left out so that
        # the query stays inside QF_BVFP
        for a in self.fp_assertions:
            s.add(a)
        for e in extra:
            s.add(e)
        res = str(s.check())
        model = s.model() if res == 'sat' else None
        self.stats.solver_s += time.perf_counter() - t0
        if _DUMP_DIR:
            _dump_query(s.assertions(), res, 'fp')
        if res == 'sat':
            self.stats.q_sat += 1
        elif res == 'unsat':
            self.stats.q_unsat += 1
        else:
            res = 'unknown'
            self.stats.q_unknown += 1
        return res, model

    def _assert(self, lit):
        if self.oneshot_tactic and _mentions_fp(lit):
            self.fp_assertions.append(lit)
        else:
            self.solver.add(lit)

    def _next_prefix_entry(self):
        d = len(self.decisions)
        if d < len(self.prefix):
            return self.prefix[d]
        return None

    def decide(self, cond):
        """Concrete truth value of a z3 Bool on this path (forks if both feasible)."""
        cond = z3.simplify(cond)
        if z3.is_true(cond):
            return True
        if z3.is_false(cond):
            return False
        key = cond.get_id()
        hit = self.known.get(key)
        if hit is not None:
            return hit[1]
        if len(self.decisions) >= self.max_decisions:
            raise BudgetExhausted('decision budget')
        entry = self._next_prefix_entry()
        if entry is not None:
            if entry[0] != 'b':
                raise RuntimeError('non-deterministic re-execution: expected %r got bool decision' % (entry,))
            choice = entry[1]
        else:
            res_t, _ = self._check(cond)
            if res_t == 'unsat':
                choice = False
            else:
                if res_t == 'unknown':
                    self.path_unknown = True
                res_f, _ = self._check(z3.Not(cond))
                if res_f == 'unsat':
                    choice = True
                else:
                    if res_f == 'unknown':
                        self.path_unknown = True
                    choice = True
                    self.stats.forks += 1
                    self.alternatives.append(tuple(self.decisions) + (('b', False),))
        self.decisions.append(('b', choice))
        self._assert(cond if choice else z3.Not(cond))
        self.known[key] = (cond, choice)
        ncond = z3.simplify(z3.Not(cond))
        self.known[ncond.get_id()] = (ncond, not choice)
        return choice

    def concretize(self, expr):
        """Concrete Python int for a z3 Int term on this path (forks over values)."""
        expr = z3.simplify(expr)
        v = _num_to_py(expr)
        if v is not None:
            return v
        key = ('c', expr.get_id())
        hit = self.known.get(key)
        if hit is not None:
            return hit[1]
        if len(self.decisions) >= self.max_decisions:
            raise BudgetExhausted('decision budget')
        entry = self._next_prefix_entry()
        excluded = ()
        if entry is not None and entry[0] == 'v':
            value = entry[1]
        else:
            if entry is not None:
                if entry[0] != 'x':
                    raise RuntimeError('non-deterministic re-execution: expected %r got value decision' % (entry,))
                excluded = entry[1]
                # drop the rest of the prefix: it ends here by construction
                self.prefix = self.prefix[:len(self.decisions)]
            cons = [expr != z3.IntVal(e) for e in excluded]
            res, model = self._check(*cons)
            if res == 'unsat':
                raise PathAbort('no further value')
            if res == 'unknown':
                self.path_unknown = True
                raise PathAbort('unknown while concretising')
            value = model.eval(expr, model_completion=True).as_long()
            self.stats.forks += 1
            self.alternatives.append(tuple(self.decisions) + (('x', excluded + (value,)),))
        self.decisions.append(('v', value))
        self.solver.add(expr == z3.IntVal(value))
        self.known[key] = (expr, value)
        return value

    def choose(self, n, label='choice'):
        """Non-deterministic choice of an index in range(n) (all explored)."""
        if n <= 0:
            raise ValueError('choose from empty range')
        if n == 1:
            return 0
        v = z3.Int('%s!%d' % (label, len(self.decisions)))
        self.solver.add(v >= 0, v < n)
        return self.concretize(v)

    def assume(self, cond):
        """Restrict the path to inputs satisfying cond."""
        z = zbool(cond)
        z = z3.simplify(z)
        if z3.is_true(z):
            return
        if z3.is_false(z):
            raise PathAbort('assumption false')
        key = z.get_id()
        hit = self.known.get(key)
        if hit is not None:
            if hit[1]:
                return
            raise PathAbort('assumption contradicts path')
        entry = self._next_prefix_entry()
        # assumptions do not consume prefix entries; feasibility is checked
        self._assert(z)
        if entry is None:
            res, _ = self._check(*([z] if (self.oneshot_tactic and _mentions_fp(z)) else []))
            if res == 'unsat':
                raise PathAbort('assumption infeasible')
            if res == 'unknown':
                self.path_unknown = True
        self.known[key] = (z, True)

    def add_lazy_axiom(self, cond):
        """A fact (typically nonlinear) that never influences control flow: kept out
        of the path condition and supplied only to obligations that need it."""
        self.lazy.append(zbool(cond))

    def add_axiom(self, z):
        """Fact about uninterpreted symbols (library contract); no feasibility check."""
        self.solver.add(z)

    def nice_model(self, *extra, den=1024):
        """A model of pathcond+extra whose real inputs are multiples of 1/den if
        one exists (exactly representable in binary floating point), else any model."""
        reals = [p for p in self.inputs.values() if isinstance(p, SymReal)]
        if reals and not self.fp_assertions:
            cons = list(extra)
            for i, p in enumerate(reals):
                k = z3.Int('dy!%d' % i)
                cons.append(p.z * den == z3.ToReal(k))
                cons.append(k <= den * 4096)
                cons.append(k >= -den * 4096)
            old = self.query_timeout_ms
            self.solver.set('timeout', 3000)
            try:
                res, model = self._check(*cons)
            finally:
                self.solver.set('timeout', old)
            if res == 'sat':
                return 'sat', model
        return self._check(*extra)

    def model_of_inputs(self, model):
        out = {}
        for name, proxy in self.inputs.items():
            try:
                val = model.eval(proxy.z, model_completion=True)
            except z3.Z3Exception:
                continue
            out[name] = z3_value_to_py(val)
        for name, bv in self.fp_bv.items():
            try:
                out[name] = model.eval(bv, model_completion=True).as_signed_long()
            except (z3.Z3Exception, AttributeError):
                pass
        return out

    def current_model(self, *extra):
        res, model = self._check(*extra)
        if res != 'sat':
            return None
        return self.model_of_inputs(model)

    def prove(self, cond, label, detail=None):
        """Obligation: cond holds for every input reaching this point."""
        self.stats.obligations += 1
        z = z3.simplify(zbool(cond))
        if z3.is_true(z):
            self.stats.discharged += 1
            self.stats.structural += 1
            return True
        if z3.is_false(z):
            res, model = self._check()
        else:
            res, model = self._check(z3.Not(z))
        if res != 'unsat' and self.lazy:
            # retry with the facts that were kept out of the path condition: first only those
            # that mention a symbol of the goal (and, transitively, of each other), then all
            rel = _relevant_facts(z, self.lazy)
            if rel and len(rel) < len(self.lazy):
                res, model = self._check(z3.Not(z), *rel)
            if res != 'unsat':
                res, model = self._check(z3.Not(z), *self.lazy)
        if res == 'unsat':
            self.stats.discharged += 1
            return True
        if res == 'sat':
            res2, model2 = self.nice_model(z3.Not(z), *self.lazy)
            if res2 == 'sat':
                model = model2
            self.stats.failed += 1
            self.path_failures.append(Failure(
                'obligation', label, self.model_of_inputs(model),
                detail if detail is not None else str(z)[:400],
                tuple(self.decisions)))
            return False
        self.stats.inconclusive += 1
        self.path_failures.append(Failure(
            'inconclusive', label, None, 'solver answered unknown: ' + str(z)[:300],
            tuple(self.decisions)))
        return None

    def fail_exception(self, exc, label=None, tb=None):
        """The code under test raised on a feasible path where it must not."""
        self.stats.obligations += 1
        res, model = self.nice_model()
        if res == 'unsat':
            # path condition became infeasible only through axioms: vacuous
            self.stats.discharged += 1
            return
        self.stats.failed += 1
        trace = site_of_exception(exc, tb)
        self.path_failures.append(Failure(
            'exception', label or type(exc).__name__,
            self.model_of_inputs(model) if model is not None else None,
            '%s: %s' % (type(exc).__name__, str(exc)[:300]),
            tuple(self.decisions), trace))

    # ---- relational obligations over two runs (origin-cone decomposition) -----------
    def prove_same_under_shift(self, t1, t2, shift_vars, label, detail=None, tactic='qffp',
                               timeout_ms=None, retries=3):
        """Obligation t1 == t2 where t1, t2 are the same computation at two origins.

        1. structural: the terms simplify to the same term;
        2. otherwise the maximal differing sub-terms that depend only on ``shift_vars``
           (e.g. the epoch-dependent denominators) are compared on their own: if they
           are provably equal the obligation follows by congruence; if the solver finds
           origins where they differ, the origins are fixed to that model and the full
           obligation is decided for those origins (a far smaller query).
        Every solver call is a one-shot tactic solver."""
        self.stats.obligations += 1
        t1 = z3.simplify(t1)
        t2 = z3.simplify(t2)
        if t1.eq(t2):
            self.stats.discharged += 1
            self.stats.structural += 1
            return True
        timeout_ms = timeout_ms or self.query_timeout_ms
        pairs = []
        if not _cone_pairs(t1, t2, set(shift_vars), pairs):
            pairs = None

        def oneshot(*extra):
            s = z3.Tactic(tactic).solver()
            s.set('timeout', timeout_ms)
            for a in list(self.solver.assertions()) + list(self.fp_assertions):
                s.add(a)
            for e in extra:
                s.add(e)
            t0 = time.perf_counter()
            r = str(s.check())
            self.stats.solver_s += time.perf_counter() - t0
            if _DUMP_DIR:
                _dump_query(s.assertions(), r, 'fp')
            setattr(self.stats, 'q_' + (r if r in ('sat', 'unsat') else 'unknown'),
                    getattr(self.stats, 'q_' + (r if r in ('sat', 'unsat') else 'unknown')) + 1)
            return r, (s.model() if r == 'sat' else None)

        def fail(model):
            out = self.model_of_inputs(model)
            for name, bv in self.fp_bv.items():
                out[name] = model.eval(bv, model_completion=True).as_signed_long()
            self.stats.failed += 1
            self.path_failures.append(Failure('obligation', label, out, detail if detail is not None else str(t1)[:300],
                                              tuple(self.decisions)))
            return False

        def inconclusive(why):
            self.stats.inconclusive += 1
            self.path_failures.append(Failure('inconclusive', label, None, why, tuple(self.decisions)))
            return None

        if pairs is None:
            r, m = oneshot(t1 != t2)
            if r == 'unsat':
                self.stats.discharged += 1
                return True
            return fail(m) if r == 'sat' else inconclusive('full query: solver answered unknown')
        all_equal = True
        for (c1, c2) in pairs:
            blocked = []
            for attempt in range(retries):
                r, m = oneshot(c1 != c2, *blocked)
                if r == 'unsat':
                    break
                all_equal = False
                if r != 'sat':
                    break
                fixed = [bv == m.eval(bv, model_completion=True) for bv in self.fp_bv.values()]
                r2, m2 = oneshot(t1 != t2, *fixed)
                if r2 == 'sat':
                    return fail(m2)
                blocked.append(z3.Not(z3.And(*fixed)))
            if not all_equal and r != 'unsat':
                pass
        if all_equal:
            self.stats.discharged += 1
            return True
        r, m = oneshot(t1 != t2)
        if r == 'unsat':
            self.stats.discharged += 1
            return True
        return fail(m) if r == 'sat' else inconclusive(
            'origin-dependent sub-terms differ for some origins but no data completing a counterexample was found '
            'within the time limit, and the full query answered unknown')

    def witness(self):
        """Model of the current path condition (for witness replay)."""
        res, model = self.nice_model()
        if res != 'sat':
            return None
        return self.model_of_inputs(model)

    def note(self, obj):
        self.notes.append(obj)

    # ---- uninterpreted functions ------------------------------------------
    def uf(self, name, *sorts):
        f = self.uf_cache.get(name)
        if f is None:
            f = z3.Function(name, *sorts)
            self.uf_cache[name] = f
        return f

    def pow(self, base, expo):
        """x ** y with y not a small constant: uninterpreted with the facts used."""
        zb = _lift_num(base, True)
        ze = _lift_num(expo, True)
        if z3.is_int(zb):
            zb = z3.ToReal(zb)
        if z3.is_int(ze):
            ze = z3.ToReal(ze)
        f = self.uf('pow', z3.RealSort(), z3.RealSort(), z3.RealSort())
        r = f(zb, ze)
        bv = _num_to_py(z3.simplify(zb))
        if bv is None:
            # Python float pow of a negative base with non-integer exponent is complex
            if self.decide(zb < 0):
                raise ShimGap('pow of negative base')
            if self.decide(zb == 0):
                if self.decide(ze < 0):
                    raise ZeroDivisionError('0.0 cannot be raised to a negative power')
                return wrap(z3.If(ze == 0, z3.RealVal(1), z3.RealVal(0)))
        self.add_axiom(r > 0)
        return wrap(r)


def _relevant_facts(goal, facts):
    """Facts sharing a fresh (engine-made, name contains '!') symbol with the goal."""
    want = {n for n in _free_consts(goal) if '!' in n}
    out = []
    for f in facts:
        if want & _free_consts(f):
            out.append(f)
    return out


_FP_CACHE = {}


def _mentions_fp(t):
    """Does the term contain a floating-point or bit-vector sub-term?"""
    if not isinstance(t, z3.ExprRef):
        return False
    key = t.get_id()
    hit = _FP_CACHE.get(key)
    if hit is not None and hit[0].eq(t):
        return hit[1]
    k = t.sort().kind()
    res = k in (z3.Z3_FLOATING_POINT_SORT, z3.Z3_ROUNDING_MODE_SORT, z3.Z3_BV_SORT) or any(_mentions_fp(c) for c in t.children())
    if len(_FP_CACHE) > 200000:
        _FP_CACHE.clear()
    _FP_CACHE[key] = (t, res)
    return res


def _free_consts(t, acc=None, seen=None):
    acc = set() if acc is None else acc
    seen = set() if seen is None else seen
    if t.get_id() in seen:
        return acc
    seen.add(t.get_id())
    if z3.is_const(t) and t.decl().kind() == z3.Z3_OP_UNINTERPRETED:
        acc.add(t.decl().name())
    for c in t.children():
        _free_consts(c, acc, seen)
    return acc


def _cone_pairs(t1, t2, shift_names, out):
    """Collect maximal differing sub-term pairs whose free symbols are shift variables.
    Returns False when the two terms differ in shape at a node that involves data."""
    if t1.eq(t2):
        return True
    f1, f2 = _free_consts(t1), _free_consts(t2)
    if f1 <= shift_names and f2 <= shift_names:
        if not any(a.eq(t1) and b.eq(t2) for a, b in out):
            out.append((t1, t2))
        return True
    if z3.is_app(t1) and z3.is_app(t2) and t1.decl().eq(t2.decl()) and t1.num_args() == t2.num_args():
        return all(_cone_pairs(a, b, shift_names, out) for a, b in zip(t1.children(), t2.children()))
    return False


def z3_value_to_py(val):
    v = _num_to_py(val)
    if v is not None:
        if isinstance(v, Fraction):
            return {'q': [v.numerator, v.denominator]} if v.denominator != 1 else {'q': [v.numerator, 1]}
        return v
    if z3.is_fp(val):
        f = _fp_to_py(z3.simplify(val))
        if f is not None:
            return {'f': f.hex() if not (math.isnan(f) or math.isinf(f)) else repr(f)}
    if z3.is_algebraic_value(val):
        ap = val.approx(30)
        return {'q': [ap.numerator_as_long(), ap.denominator_as_long()], 'approx': True}
    return str(val)


def model_number(v):
    """Decode a value written by z3_value_to_py into Fraction / int / float / bool."""
    if isinstance(v, dict):
        if 'q' in v:
            return Fraction(v['q'][0], v['q'][1])
        if 'f' in v:
            try:
                return float.fromhex(v['f'])
            except ValueError:
                return float(v['f'])
    return v


def site_of_exception(exc, tb=None):
    """Innermost frames of the traceback that lie in the code under test."""
    tb = tb or exc.__traceback__
    frames = traceback.extract_tb(tb)
    out = []
    for fr in frames:
        fn = fr.filename
        root = os.environ.get('SPOWTD_REPO', '/repo').rstrip('/') + '/'
        if fn.startswith(root):
            out.append('%s:%d:%s' % ('/repo/' + fn[len(root):], fr.lineno, fr.name))
    return out[-4:]


# --------------------------------------------------------------------------
# Exploration driver
# --------------------------------------------------------------------------
class PathResult:
    __slots__ = ('status', 'failures', 'notes', 'depth', 'unknown', 'witness')

    def __init__(self, status, failures, notes, depth, unknown, witness):
        self.status = status
        self.failures = failures
        self.notes = notes
        self.depth = depth
        self.unknown = unknown
        self.witness = witness


def run_path(eng, harness, prefix, ctx):
    """Execute the harness once under the decision prefix."""
    global _ENGINE
    _ENGINE = eng
    eng.begin(prefix)
    status = 'ok'
    try:
        try:
            harness(eng, ctx)
        except PathAbort:
            status = 'aborted'
        except PathEnd:
            status = 'ended'
        except BudgetExhausted as e:
            status = 'budget'
            eng.path_failures.append(Failure('harness', 'budget', None, str(e), tuple(eng.decisions)))
        except ShimGap as e:
            status = 'gap'
            eng.path_failures.append(Failure(
                'harness', 'ShimGap', None,
                str(e) + ' @ ' + ' <- '.join(traceback.format_tb(e.__traceback__)[-3:]).replace('\n', ' ')[:600],
                tuple(eng.decisions)))
        except Exception as e:  # bug in a harness (not in the code under test)
            status = 'crash'
            eng.path_failures.append(Failure(
                'harness', 'harness crashed', None,
                '%s: %s @ %s' % (type(e).__name__, str(e)[:200],
                                 ' <- '.join(traceback.format_tb(e.__traceback__)[-3:]).replace('\n', ' ')[:500]),
                tuple(eng.decisions)))
        except RecursionError as e:
            status = 'gap'
            eng.path_failures.append(Failure('harness', 'RecursionError', None, str(e), tuple(eng.decisions)))
        if status == 'aborted':
            eng.stats.aborted += 1
        else:
            eng.stats.paths += 1
            if status == 'ended':
                eng.stats.ended += 1
        eng.stats.max_depth = max(eng.stats.max_depth, len(eng.decisions))
        res = PathResult(status, [f.to_json() | {'prefix_len': len(f.prefix), 'has_pop_choice': any(d[0] == 'v' for d in f.prefix)} for f in eng.path_failures],
                         list(eng.notes), len(eng.decisions), eng.path_unknown, None)
        alts = list(eng.alternatives)
    finally:
        eng.end()
        _ENGINE = None
    return res, alts


def _worker(args):
    (harness_ref, ctx, prefixes, budget, engine_kw) = args
    harness = _resolve(harness_ref)
    eng = _worker_engine(engine_kw)
    eng.stats = Stats()
    stack = list(prefixes)
    results = []
    n = 0
    t_end = time.time() + 60
    while stack and n < budget and time.time() < t_end:
        prefix = stack.pop()
        res, alts = run_path(eng, harness, prefix, ctx)
        stack.extend(alts)
        results.append(res)
        n += 1
    return results, stack, eng.stats


_WENG = {}


def _worker_engine(engine_kw):
    key = tuple(sorted(engine_kw.items()))
    eng = _WENG.get(key)
    if eng is None:
        eng = Engine(**engine_kw)
        _WENG.clear()
        _WENG[key] = eng
    return eng


_HARNESSES = {}


def register(name):
    def deco(fn):
        _HARNESSES[name] = fn
        return fn
    return deco


def _resolve(ref):
    if callable(ref):
        return ref
    return _HARNESSES[ref]


class Exploration:
    """Result of exploring one harness."""

    def __init__(self, name):
        self.name = name
        self.stats = Stats()
        self.failures = []
        self.notes = []
        self.statuses = {}
        self.unknown_paths = 0
        self.complete = True
        self.wall_s = 0.0
        self.reached = 0        # paths that ran to the end of the harness (reachability witness)

    def summary(self):
        d = self.stats.as_dict()
        d.update(name=self.name, statuses=self.statuses, complete=self.complete,
                 unknown_paths=self.unknown_paths, wall_s=round(self.wall_s, 2), reached_end=self.reached)
        return d


DEADLINE = None        # absolute time after which explorations stop (set per check run)


def explore(harness, ctx=None, name=None, workers=None, max_paths=2000000,
            wall_limit_s=3600, engine_kw=None, keep_notes=200, keep_failures=50,
            on_result=None):
    """Explore every feasible path of ``harness(eng, ctx)``.

    The work-list of decision prefixes is split over a pool of forked worker
    processes; each task explores a bounded number of paths depth-first and
    hands its remaining alternatives back.
    """
    import multiprocessing as mp
    engine_kw = engine_kw or {}
    name = name or getattr(harness, '__name__', 'harness')
    exp = Exploration(name)
    t0 = time.time()
    if DEADLINE is not None:
        # budget of the whole check run (set by run_check.py): what is left bounds this exploration;
        # an exploration cut short is incomplete, i.e. a harness error unless a violation was found
        left = DEADLINE - t0
        if left <= 1:
            exp.complete = False
            exp.notes.append({'t': 'worker_died', 'v': 'the time budget of the check run was used up before %s started' % name})
            exp.wall_s = 0.0
            return exp
        wall_limit_s = min(wall_limit_s, left)
    workers = workers or int(os.environ.get('VERIF_WORKERS', '0')) or min(16, os.cpu_count() or 1)
    pending = [()]
    total = 0
    groups = {}
    exp.failure_groups = groups

    def absorb(results, stats):
        nonlocal total
        exp.stats.merge(stats)
        for r in results:
            total += 1
            exp.statuses[r.status] = exp.statuses.get(r.status, 0) + 1
            if r.unknown:
                exp.unknown_paths += 1
            for f in r.failures:
                gk = (f['kind'], f['label'], (f['detail'] or '').split(':')[0][:40],
                      tuple((f.get('trace') or [])[-1:]))
                c = groups.get(gk, 0)
                groups[gk] = c + 1
                if c < 4 and len(groups) <= 400:
                    exp.failures.append(f)
            for nt in r.notes:
                if isinstance(nt, dict) and nt.get('t') == 'reached':
                    exp.reached += 1
                    break
            if on_result is not None:
                on_result(r)
            if len(exp.notes) < keep_notes:
                exp.notes.extend(r.notes[:max(0, keep_notes - len(exp.notes))])

    if workers <= 1:
        eng = Engine(**engine_kw)
        while pending:
            if total >= max_paths or time.time() - t0 > wall_limit_s:
                exp.complete = False
                break
            prefix = pending.pop()
            res, alts = run_path(eng, harness, prefix, ctx)
            pending.extend(alts)
            absorb([res], Stats())
        exp.stats.merge(eng.stats)
        exp.wall_s = time.time() - t0
        return exp

    ctxmp = mp.get_context('fork')
    with ctxmp.Pool(workers) as pool:
        inflight = []
        first_pids = {p_.pid for p_ in pool._pool}
        last_alive_check = time.time()
        submitted = {}
        stuck_after_s = float(os.environ.get('VERIF_TASK_STUCK_S', '900'))
        while pending or inflight:
            if total >= max_paths or time.time() - t0 > wall_limit_s:
                exp.complete = False
                break
            if time.time() - last_alive_check > 1.0:
                # a worker that died (solver abort, out of memory) takes its task with it and the pool
                # silently replaces it: the exploration can no longer be complete
                last_alive_check = time.time()
                if first_pids - {p_.pid for p_ in pool._pool}:
                    exp.complete = False
                    exp.notes.append({'t': 'worker_died', 'v': 'a worker process of %s ended abnormally (solver abort?); its paths are lost' % name})
                    break
                oldest = min((submitted.get(id(ar), last_alive_check) for ar in inflight), default=last_alive_check)
                if last_alive_check - oldest > stuck_after_s:
                    # e.g. z3 printing ASSERTION VIOLATION and then never returning
                    exp.complete = False
                    exp.notes.append({'t': 'worker_died', 'v': 'a batch of paths of %s has not come back for %d s (solver stuck or aborted); its paths are lost' % (name, stuck_after_s)})
                    break
            # submit
            while pending and len(inflight) < workers * 2:
                if len(pending) < workers * 2:
                    chunk = [pending.pop()]
                    budget = 4 if total < workers * 8 else 64
                else:
                    k = max(1, min(len(pending) // (workers * 2), 8))
                    chunk = [pending.pop() for _ in range(k)]
                    budget = 256
                inflight.append(pool.apply_async(_worker, ((harness, ctx, chunk, budget, engine_kw),)))
                submitted[id(inflight[-1])] = time.time()
            # collect
            still = []
            got = False
            for ar in inflight:
                if ar.ready():
                    results, leftover, stats = ar.get()
                    absorb(results, stats)
                    pending.extend(leftover)
                    got = True
                else:
                    still.append(ar)
            inflight = still
            if not got:
                time.sleep(0.002)
        if not exp.complete:
            pool.terminate()
    exp.wall_s = time.time() - t0
    return exp


def source_hash(paths):
    h = hashlib.sha256()
    for p in sorted(paths):
        with open(p, 'rb') as f:
            h.update(p.encode())
            h.update(f.read())
    return h.hexdigest()[:16]


class single_path:
    """Context manager: an engine for running instrumented code once (concrete data
    or a single symbolic path), outside ``explore``."""

    def __init__(self, **engine_kw):
        self.eng = Engine(**engine_kw)

    def __enter__(self):
        global _ENGINE
        self.prev = _ENGINE
        _ENGINE = self.eng
        self.eng.begin(())
        return self.eng

    def __exit__(self, *a):
        global _ENGINE
        self.eng.end()
        _ENGINE = self.prev
        return False
