"""libstubs -- contracts of the C/Fortran library kernels spowtd calls.

Every stub returns what the documented contract of the real callee promises and
nothing more; every stub is listed in the evidence of the checks that use it and
is compared with the real library by vf.conform on concrete inputs.
"""

from fractions import Fraction

import z3

from . import symx, nplite
from .symx import ShimGap, Sym, SymBool, SymInt, SymReal, engine


def _zr(x):
    """z3 Real term of a proxy / concrete number."""
    z = symx._lift_num(x, True)
    if z is None:
        raise ShimGap('not a number: %r' % (x,))
    if z3.is_int(z):
        z = z3.ToReal(z)
    return z


# ---- scipy.interpolate.interp1d (kind='linear') -----------------------------------
class interp1d:
    """Piecewise-linear interpolant through (x_i, y_i); ValueError outside [x_0, x_n]."""

    def __init__(self, x, y, kind='linear', **kw):
        if kind != 'linear':
            raise ShimGap('interp1d kind=%r' % (kind,))
        if kw:
            raise ShimGap('interp1d options %r' % (sorted(kw),))
        self.x = list(nplite.asarray(x))
        self.y = list(nplite.asarray(y))
        if len(self.x) != len(self.y):
            raise ValueError('x and y arrays must be equal in length along interpolation axis.')
        if len(self.x) < 2:
            # scipy refuses to build a linear interpolant through fewer than two points
            raise ValueError('x and y arrays must have at least 2 entries')

    def __call__(self, xq):
        if isinstance(xq, (nplite.ndarray, list, tuple)):
            return nplite.array([self(v) for v in xq])
        xs, ys = self.x, self.y
        n = len(xs)
        if xq < xs[0]:
            raise ValueError('A value in x_new is below the interpolation range.')
        if xq > xs[n - 1]:
            raise ValueError('A value in x_new is above the interpolation range.')
        # x assumed sorted ascending (the caller passes time / depth sequences)
        for j in range(n - 1):
            if xq <= xs[j + 1]:
                if xq == xs[j]:
                    return ys[j]
                if xq == xs[j + 1]:
                    return ys[j + 1]
                return ys[j] + (ys[j + 1] - ys[j]) * ((xq - xs[j]) / (xs[j + 1] - xs[j]))
        return ys[n - 1]


# ---- scipy.optimize.brentq ----------------------------------------------------------
def brentq(f, a, b, *args, **kw):
    """Contract: ValueError unless f(a) and f(b) have opposite signs (or one is a
    root); otherwise some r between a and b with f(r) == 0."""
    if kw:
        raise ShimGap('brentq options %r' % (sorted(kw),))
    fa = f(a, *args)
    fb = f(b, *args)
    if fa == 0:
        return a
    if fb == 0:
        return b
    if (fa > 0) == (fb > 0):
        raise ValueError('f(a) and f(b) must have different signs')
    eng = engine()
    if not isinstance(fa, Sym) and not isinstance(fb, Sym):
        # Contract refinement proved on the fly: with concrete end values the
        # candidate root of a function that is linear between a and b is
        # a + fa/(fa-fb) (b-a).  It is returned only if z3 proves that *every* root
        # of f strictly between a and b equals it (and that it is one).
        kappa = Fraction(fa) / (Fraction(fa) - Fraction(fb))
        cand = a + kappa * (b - a)
        rho = z3.Real('brentq_rho!%d' % eng.uniq())
        rp = SymReal(rho)
        saved = len(eng.alternatives)
        try:
            eng.solver.push()
            if a <= b:
                eng.solver.add(_zr(a) < rho, rho < _zr(b))
            else:
                eng.solver.add(_zr(b) < rho, rho < _zr(a))
            f_rho = f(rp, *args)
            f_cand = f(cand, *args)
            ok = False
            forked = len(eng.alternatives) != saved
            del eng.alternatives[saved:]      # forks inside the hypothetical scope are not paths
            if not forked:
                r1, _ = eng._check(symx.zbool(f_rho == 0), rho != _zr(cand))
                r2, _ = eng._check(z3.Not(symx.zbool(f_cand == 0)))
                ok = (r1 == 'unsat' and r2 == 'unsat')
        finally:
            eng.solver.pop()
        if ok:
            return cand
    r = eng.fresh_real('brentq_root')
    # neither end is a root and the signs differ: the root is strictly inside
    if a <= b:
        eng.assume(a < r)
        eng.assume(r < b)
    else:
        eng.assume(b < r)
        eng.assume(r < a)
    fr = f(r, *args)
    # f(r) == 0 is typically nonlinear (chord equation) and never steers control
    # flow: keep it out of the path condition, hand it to the obligations
    eng.add_lazy_axiom(fr == 0)
    return r


# ---- numpy.linalg ----------------------------------------------------------------------
class LinAlgError(ValueError):
    pass


class _LinalgMeta(type):
    def __getattr__(cls, name):
        raise ShimGap('numpy.linalg.%s is not implemented by vf.libstubs' % name)


class linalg(metaclass=_LinalgMeta):
    LinAlgError = LinAlgError

    @staticmethod
    def lstsq(A, b, rcond=None):
        """Contract: the minimum-norm least-squares solution x = pinv(A) b (exact, via a
        full-rank factorisation of the concrete rational matrix), residual sum, rank."""
        A = nplite.asarray(A)
        b = nplite.asarray(b)
        if A.ndim != 2 or b.ndim != 1 or A.shape[0] != b.shape[0]:
            raise LinAlgError('lstsq: incompatible dimensions')
        if any(isinstance(a, Sym) for a in A._d):
            raise ShimGap('lstsq with a symbolic matrix')
        m, n = A.shape
        M = [[Fraction(A._d[i * n + j]) for j in range(n)] for i in range(m)]
        # reduced row echelon form -> pivot columns; A = B C with B = pivot columns of A, C = nonzero rows of rref
        R = [row[:] for row in M]
        piv = []
        r = 0
        for c in range(n):
            p = next((i for i in range(r, m) if R[i][c] != 0), None)
            if p is None:
                continue
            R[r], R[p] = R[p], R[r]
            pv = R[r][c]
            R[r] = [e / pv for e in R[r]]
            for i in range(m):
                if i != r and R[i][c] != 0:
                    f = R[i][c]
                    R[i] = [e - f * er for e, er in zip(R[i], R[r])]
            piv.append(c)
            r += 1
            if r == m:
                break
        rank = len(piv)
        if rank == 0:
            x = [Fraction(0)] * n
        else:
            B = [[M[i][c] for c in piv] for i in range(m)]          # m x r
            C = [R[i] for i in range(rank)]                          # r x n

            def mat(Ml):
                return nplite.ndarray([e for row in Ml for e in row], (len(Ml), len(Ml[0])), nplite.float64)
            Bt = [list(col) for col in zip(*B)]
            Ct = [list(col) for col in zip(*C)]

            def mul(X, Y):
                return [[sum((X[i][k] * Y[k][j] for k in range(len(Y))), Fraction(0)) for j in range(len(Y[0]))] for i in range(len(X))]
            BtB = mul(Bt, B)
            CCt = mul(C, Ct)
            Btb = [sum((Bt[i][k] * b._d[k] for k in range(m) if Bt[i][k] != 0), Fraction(0)) for i in range(rank)]
            y = _solve_concrete_matrix(mat(BtB), nplite.ndarray(Btb, (rank,), nplite.float64), rank)._d
            z = _solve_concrete_matrix(mat(CCt), nplite.ndarray(list(y), (rank,), nplite.float64), rank)._d
            x = [sum((Ct[j][k] * z[k] for k in range(rank) if Ct[j][k] != 0), Fraction(0)) for j in range(n)]
        res = nplite.zeros((0,))
        return (nplite.ndarray(x, (n,), nplite.float64), res, rank, nplite.zeros((min(m, n),)))

    @staticmethod
    def solve(A, b):
        """Contract: x with A.x = b; LinAlgError('Singular matrix') iff A is singular.

        Singularity is decided by the solver: 'exists v != 0 with A.v = 0' is posed
        as a query on the current path; if it is satisfiable the singular case is
        explored as a path of its own (the real call raises there)."""
        A = nplite.asarray(A)
        b = nplite.asarray(b)
        if A.ndim != 2 or A.shape[0] != A.shape[1]:
            raise LinAlgError('Last 2 dimensions of the array must be square')
        n = A.shape[0]
        if b.ndim != 1 or b.shape[0] != n:
            raise ValueError('solve: Input operand 1 has a mismatch in its core dimension')
        if n == 0:
            return nplite.zeros((0,))
        if not any(isinstance(a, Sym) for a in A._d):
            return _solve_concrete_matrix(A, b, n)
        eng = engine()
        # symbolic matrix: x is a fresh vector constrained by A.x = b; the singular
        # case (a kernel vector exists) is explored as a path of its own
        tag = len(eng.inputs)
        v = [z3.Real('ker!%d!%d' % (tag, i)) for i in range(n)]
        rows = []
        for i in range(n):
            acc = z3.RealVal(0)
            for j in range(n):
                a = A._d[i * n + j]
                if not isinstance(a, Sym) and a == 0:
                    continue
                acc = acc + _zr(a) * v[j]
            rows.append(acc == 0)
        cases = [z3.And(v[k] == 1, *rows) for k in range(n)]
        res, _ = eng._check(z3.Or(*cases))
        if res != 'unsat':
            if eng.choose(2, 'singular') == 1:
                eng.add_axiom(z3.Or(*cases))
                r2, _ = eng._check()
                if r2 == 'unsat':
                    raise symx.PathAbort('singular branch infeasible')
                raise LinAlgError('Singular matrix')
        x = [eng.fresh_real('solve_x') for _ in range(n)]
        for i in range(n):
            acc = z3.RealVal(0)
            for j in range(n):
                a = A._d[i * n + j]
                if not isinstance(a, Sym) and a == 0:
                    continue
                acc = acc + _zr(a) * x[j].z
            eng.add_axiom(acc == _zr(b._d[i]))
        r3, _ = eng._check()
        if r3 == 'unsat':
            raise symx.PathAbort('no solution on the regular branch')
        return nplite.ndarray(list(x), (n,), nplite.float64)


def _solve_concrete_matrix(A, b, n):
    """Exact Gauss-Jordan elimination on a rational matrix; the right-hand side may
    be symbolic (the result is then a linear term in it)."""
    M = [[Fraction(A._d[i * n + j]) for j in range(n)] for i in range(n)]
    rhs = list(b._d)
    for c in range(n):
        piv = next((r for r in range(c, n) if M[r][c] != 0), None)
        if piv is None:
            raise LinAlgError('Singular matrix')
        if piv != c:
            M[c], M[piv] = M[piv], M[c]
            rhs[c], rhs[piv] = rhs[piv], rhs[c]
        pv = M[c][c]
        M[c] = [e / pv for e in M[c]]
        rhs[c] = rhs[c] * (1 / pv) if isinstance(rhs[c], Sym) else Fraction(rhs[c]) / pv
        for r in range(n):
            if r != c and M[r][c] != 0:
                f = M[r][c]
                M[r] = [e - f * ec for e, ec in zip(M[r], M[c])]
                rhs[r] = rhs[r] - f * rhs[c]
    return nplite.ndarray(rhs, (n,), nplite.float64)
