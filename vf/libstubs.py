"""libstubs -- contracts of the C/Fortran library kernels spowtd calls.

Every stub returns what the documented contract of the real callee promises and
nothing more; every stub is listed in the evidence of the checks that use it and
is compared with the real library by vf.conform on concrete inputs.
"""

from fractions import Fraction

import z3

from . import symx, nplite
from .symx import ShimGap, Sym, SymBool, SymInt, SymReal, engine


def _zr(x):
    """z3 Real term of a proxy / concrete number."""
    z = symx._lift_num(x, True)
    if z is None:
        raise ShimGap('not a number: %r' % (x,))
    if z3.is_int(z):
        z = z3.ToReal(z)
    return z


# ---- scipy.interpolate.interp1d (kind='linear') -----------------------------------
class interp1d:
    """Piecewise-linear interpolant through (x_i, y_i); ValueError outside [x_0, x_n]."""

    def __init__(self, x, y, kind='linear', **kw):
        if kind != 'linear':
            raise ShimGap('interp1d kind=%r' % (kind,))
        if kw:
            raise ShimGap('interp1d options %r' % (sorted(kw),))
        self.x = list(nplite.asarray(x))
        self.y = list(nplite.asarray(y))
        if len(self.x) != len(self.y):
            raise ValueError('x and y arrays must be equal in length along interpolation axis.')
        if len(self.x) < 2:
            # scipy refuses to build a linear interpolant through fewer than two points
            raise ValueError('x and y arrays must have at least 2 entries')

    def __call__(self, xq):
        if isinstance(xq, (nplite.ndarray, list, tuple)):
            return nplite.array([self(v) for v in xq])
        xs, ys = self.x, self.y
        n = len(xs)
        if xq < xs[0]:
            raise ValueError('A value in x_new is below the interpolation range.')
        if xq > xs[n - 1]:
            raise ValueError('A value in x_new is above the interpolation range.')
        # x assumed sorted ascending (the caller passes time / depth sequences)
        for j in range(n - 1):
            if xq <= xs[j + 1]:
                if xq == xs[j]:
                    return ys[j]
                if xq == xs[j + 1]:
                    return ys[j + 1]
                return ys[j] + (ys[j + 1] - ys[j]) * ((xq - xs[j]) / (xs[j + 1] - xs[j]))
        return ys[n - 1]


# ---- scipy.optimize.brentq ----------------------------------------------------------
def brentq(f, a, b, *args, **kw):
    """Contract: ValueError unless f(a) and f(b) have opposite signs (or one is a
    root); otherwise some r between a and b with f(r) == 0."""
    if 'args' in kw:
        args = tuple(args) + tuple(kw.pop('args'))
    for opt in ('xtol', 'rtol', 'maxiter', 'disp'):
        kw.pop(opt, None)          # tolerances do not enter the contract (the root is exact)
    if kw:
        raise ShimGap('brentq options %r' % (sorted(kw),))
    fa = f(a, *args)
    fb = f(b, *args)
    if fa == 0:
        return a
    if fb == 0:
        return b
    if (fa > 0) == (fb > 0):
        raise ValueError('f(a) and f(b) must have different signs')
    eng = engine()
    if not isinstance(fa, Sym) and not isinstance(fb, Sym):
        # Contract refinement proved on the fly: with concrete end values the
        # candidate root of a function that is linear between a and b is
        # a + fa/(fa-fb) (b-a).  It is returned only if z3 proves that *every* root
        # of f strictly between a and b equals it (and that it is one).
        kappa = Fraction(fa) / (Fraction(fa) - Fraction(fb))
        cand = a + kappa * (b - a)
        rho = z3.Real('brentq_rho!%d' % eng.uniq())
        rp = SymReal(rho)
        saved = len(eng.alternatives)
        try:
            eng.solver.push()
            if a <= b:
                eng.solver.add(_zr(a) < rho, rho < _zr(b))
            else:
                eng.solver.add(_zr(b) < rho, rho < _zr(a))
            f_rho = f(rp, *args)
            f_cand = f(cand, *args)
            ok = False
            forked = len(eng.alternatives) != saved
            del eng.alternatives[saved:]      # forks inside the hypothetical scope are not paths
            if not forked:
                r1, _ = eng._check(symx.zbool(f_rho == 0), rho != _zr(cand))
                r2, _ = eng._check(z3.Not(symx.zbool(f_cand == 0)))
                ok = (r1 == 'unsat' and r2 == 'unsat')
        finally:
            eng.solver.pop()
        if ok:
            return cand
    r = eng.fresh_real('brentq_root')
    # neither end is a root and the signs differ: the root is strictly inside
    if a <= b:
        eng.assume(a < r)
        eng.assume(r < b)
    else:
        eng.assume(b < r)
        eng.assume(r < a)
    fr = f(r, *args)
    # f(r) == 0 is typically nonlinear (chord equation) and never steers control
    # flow: keep it out of the path condition, hand it to the obligations
    eng.add_lazy_axiom(fr == 0)
    return r


# ---- numpy.linalg ----------------------------------------------------------------------
class LinAlgError(ValueError):
    pass


class _LinalgMeta(type):
    def __getattr__(cls, name):
        raise ShimGap('numpy.linalg.%s is not implemented by vf.libstubs' % name)


class linalg(metaclass=_LinalgMeta):
    LinAlgError = LinAlgError

    @staticmethod
    def lstsq(A, b, rcond=None):
        """Contract: the minimum-norm least-squares solution x = pinv(A) b (exact, via a
        full-rank factorisation of the concrete rational matrix), residual sum, rank."""
        A = nplite.asarray(A)
        b = nplite.asarray(b)
        if A.ndim != 2 or b.ndim != 1 or A.shape[0] != b.shape[0]:
            raise LinAlgError('lstsq: incompatible dimensions')
        if any(isinstance(a, Sym) for a in A._d):
            raise ShimGap('lstsq with a symbolic matrix')
        m, n = A.shape
        M = [[Fraction(A._d[i * n + j]) for j in range(n)] for i in range(m)]
        # reduced row echelon form -> pivot columns; A = B C with B = pivot columns of A, C = nonzero rows of rref
        R = [row[:] for row in M]
        piv = []
        r = 0
        for c in range(n):
            p = next((i for i in range(r, m) if R[i][c] != 0), None)
            if p is None:
                continue
            R[r], R[p] = R[p], R[r]
            pv = R[r][c]
            R[r] = [e / pv for e in R[r]]
            for i in range(m):
                if i != r and R[i][c] != 0:
                    f = R[i][c]
                    R[i] = [e - f * er for e, er in zip(R[i], R[r])]
            piv.append(c)
            r += 1
            if r == m:
                break
        rank = len(piv)
        if rank == 0:
            x = [Fraction(0)] * n
        else:
            B = [[M[i][c] for c in piv] for i in range(m)]          # m x r
            C = [R[i] for i in range(rank)]                          # r x n

            def mat(Ml):
                return nplite.ndarray([e for row in Ml for e in row], (len(Ml), len(Ml[0])), nplite.float64)
            Bt = [list(col) for col in zip(*B)]
            Ct = [list(col) for col in zip(*C)]

            def mul(X, Y):
                return [[sum((X[i][k] * Y[k][j] for k in range(len(Y))), Fraction(0)) for j in range(len(Y[0]))] for i in range(len(X))]
            BtB = mul(Bt, B)
            CCt = mul(C, Ct)
            Btb = [sum((Bt[i][k] * b._d[k] for k in range(m) if Bt[i][k] != 0), Fraction(0)) for i in range(rank)]
            y = _solve_concrete_matrix(mat(BtB), nplite.ndarray(Btb, (rank,), nplite.float64), rank)._d
            z = _solve_concrete_matrix(mat(CCt), nplite.ndarray(list(y), (rank,), nplite.float64), rank)._d
            x = [sum((Ct[j][k] * z[k] for k in range(rank) if Ct[j][k] != 0), Fraction(0)) for j in range(n)]
        res = nplite.zeros((0,))
        return (nplite.ndarray(x, (n,), nplite.float64), res, rank, nplite.zeros((min(m, n),)))

    @staticmethod
    def solve(A, b):
        """Contract: x with A.x = b; LinAlgError('Singular matrix') iff A is singular.

        Singularity is decided by the solver: 'exists v != 0 with A.v = 0' is posed
        as a query on the current path; if it is satisfiable the singular case is
        explored as a path of its own (the real call raises there)."""
        A = nplite.asarray(A)
        b = nplite.asarray(b)
        if A.ndim != 2 or A.shape[0] != A.shape[1]:
            raise LinAlgError('Last 2 dimensions of the array must be square')
        n = A.shape[0]
        if b.ndim != 1 or b.shape[0] != n:
            raise ValueError('solve: Input operand 1 has a mismatch in its core dimension')
        if n == 0:
            return nplite.zeros((0,))
        if not any(isinstance(a, Sym) for a in A._d):
            return _solve_concrete_matrix(A, b, n)
        eng = engine()
        # symbolic matrix: x is a fresh vector constrained by A.x = b; the singular
        # case (a kernel vector exists) is explored as a path of its own
        tag = len(eng.inputs)
        v = [z3.Real('ker!%d!%d' % (tag, i)) for i in range(n)]
        rows = []
        for i in range(n):
            acc = z3.RealVal(0)
            for j in range(n):
                a = A._d[i * n + j]
                if not isinstance(a, Sym) and a == 0:
                    continue
                acc = acc + _zr(a) * v[j]
            rows.append(acc == 0)
        cases = [z3.And(v[k] == 1, *rows) for k in range(n)]
        res, _ = eng._check(z3.Or(*cases))
        if res != 'unsat':
            if eng.choose(2, 'singular') == 1:
                eng.add_axiom(z3.Or(*cases))
                r2, _ = eng._check()
                if r2 == 'unsat':
                    raise symx.PathAbort('singular branch infeasible')
                raise LinAlgError('Singular matrix')
        x = [eng.fresh_real('solve_x') for _ in range(n)]
        for i in range(n):
            acc = z3.RealVal(0)
            for j in range(n):
                a = A._d[i * n + j]
                if not isinstance(a, Sym) and a == 0:
                    continue
                acc = acc + _zr(a) * x[j].z
            eng.add_axiom(acc == _zr(b._d[i]))
        r3, _ = eng._check()
        if r3 == 'unsat':
            raise symx.PathAbort('no solution on the regular branch')
        return nplite.ndarray(list(x), (n,), nplite.float64)


def _solve_concrete_matrix(A, b, n):
    """Exact Gauss-Jordan elimination on a rational matrix; the right-hand side may
    be symbolic (the result is then a linear term in it)."""
    M = [[Fraction(A._d[i * n + j]) for j in range(n)] for i in range(n)]
    rhs = list(b._d)
    for c in range(n):
        piv = next((r for r in range(c, n) if M[r][c] != 0), None)
        if piv is None:
            raise LinAlgError('Singular matrix')
        if piv != c:
            M[c], M[piv] = M[piv], M[c]
            rhs[c], rhs[piv] = rhs[piv], rhs[c]
        pv = M[c][c]
        M[c] = [e / pv for e in M[c]]
        rhs[c] = rhs[c] * (1 / pv) if isinstance(rhs[c], Sym) else Fraction(rhs[c]) / pv
        for r in range(n):
            if r != c and M[r][c] != 0:
                f = M[r][c]
                M[r] = [e - f * ec for e, ec in zip(M[r], M[c])]
                rhs[r] = rhs[r] - f * rhs[c]
    return nplite.ndarray(rhs, (n,), nplite.float64)


# ---- FITPACK (scipy.interpolate.splrep / splev / splint) ------------------------------
class TCK(tuple):
    """(t, c, k) as splrep returns it; t[0] and t[-1] are the end knots.  Carries the
    data points and a per-spline identity for the uninterpreted value / antiderivative."""
    pass


def splrep(x, y, s=0, k=3, **kw):
    if kw:
        raise ShimGap('splrep options %r' % (sorted(kw),))
    xs = list(nplite.asarray(list(x)))
    ys = list(nplite.asarray(list(y)))
    if len(xs) != len(ys):
        raise TypeError('Lengths of the first two arguments must be equal')
    if len(xs) <= k:
        raise TypeError('m > k must hold')
    eng = engine()
    # a spline is determined by its data: the same points give the same symbols
    # (keyed by the hash-consed term identities, not by their text: printing a large z3 term
    # can take minutes; the terms are kept alive alongside so that the ids stay valid)
    zx = [_zr(v) for v in xs]
    zy = [_zr(v) for v in ys]
    key = (k, str(s), tuple(t.get_id() for t in zx), tuple(t.get_id() for t in zy))
    ids = eng.__dict__.setdefault('_spline_ids', {})
    if key not in ids:
        ids[key] = (len(ids) + 1, zx, zy)
    ident = ids[key][0]
    knots = [xs[0]] * (k + 1) + xs[2:-2] * (1 if k == 3 else 0) + (xs[1:-1] if k == 1 else []) + [xs[-1]] * (k + 1)
    tck = TCK((knots, None, k))
    tck_info = {'x': xs, 'y': ys, 's': s, 'k': k, 'id': ident}
    _TCK_INFO[id(tck)] = (tck, tck_info)
    if k == 3:
        S = z3.Function('S!%d' % ident, z3.RealSort(), z3.RealSort())
        Fn = z3.Function('F!%d' % ident, z3.RealSort(), z3.RealSort())
        tck_info['S'] = S
        tck_info['F'] = Fn
        if s == 0:
            for xi, yi in zip(xs, ys):
                eng.add_axiom(S(_zr(xi)) == _zr(yi))      # interpolation
    elif k != 1:
        raise ShimGap('spline order %r' % k)
    return tck


_TCK_INFO = {}


def _info(tck):
    hit = _TCK_INFO.get(id(tck))
    if hit is None or hit[0] is not tck:
        raise ShimGap('tck not produced by the splrep stub')
    return hit[1]


def _pl_eval(xs, ys, v):
    """Piecewise-linear value at v in [xs[0], xs[-1]] (segment located by forking)."""
    n = len(xs)
    for j in range(n - 1):
        if v <= xs[j + 1]:
            if v == xs[j]:
                return ys[j]
            if v == xs[j + 1]:
                return ys[j + 1]
            return ys[j] + (ys[j + 1] - ys[j]) * ((v - xs[j]) / (xs[j + 1] - xs[j]))
    return ys[n - 1]


def splantider(tck, n=1):
    """Antiderivative spline (order k+1), zero at the first knot.  Inside the knot range it is the same
    antiderivative splint uses; outside it FITPACK extrapolates the end polynomial, about which the
    contract says nothing: an unconstrained function of the argument."""
    info = _info(tck)
    if n != 1:
        raise ShimGap('splantider n=%r' % n)
    k = info['k']
    t = tck[0]
    anti = TCK(([t[0]] + list(t) + [t[-1]], None, k + 1))
    _TCK_INFO[id(anti)] = (anti, {'anti_of': tck, 'k': k + 1, 'x': info['x'], 'y': info['y'], 'id': info['id'],
                                   'E': z3.Function('Fext!%d' % info['id'], z3.RealSort(), z3.RealSort())})
    return anti


def splev(x, tck, der=0, **kw):
    info = _info(tck)
    if der != 0:
        raise ShimGap('splev der=%r' % der)
    if isinstance(x, (nplite.ndarray, list, tuple)):
        arr = nplite.asarray(x)
        return nplite.ndarray([splev(v, tck, der) for v in arr._d], arr.shape, nplite.float64)
    if 'anti_of' in info:
        lo, hi = info['x'][0], info['x'][-1]
        if x < lo or x > hi:
            return symx.wrap(info['E'](_zr(x)))
        return splint(lo, x, info['anti_of'])
    xs, ys = info['x'], info['y']
    if info['k'] == 1:
        # FITPACK extrapolates the end pieces by default (ext=0)
        if x < xs[0]:
            return ys[0] + (ys[1] - ys[0]) * ((x - xs[0]) / (xs[1] - xs[0]))
        if x > xs[-1]:
            return ys[-2] + (ys[-1] - ys[-2]) * ((x - xs[-2]) / (xs[-1] - xs[-2]))
        return _pl_eval(xs, ys, x)
    v = info['S'](_zr(x))
    return symx.wrap(v)


def splint(a, b, tck, **kw):
    """Definite integral of the spline; FITPACK takes the spline as zero outside
    [t_k, t_{n-k}] (checked against scipy by vf.conform)."""
    info = _info(tck)
    xs, ys = info['x'], info['y']
    lo, hi = xs[0], xs[-1]

    def clip(v):
        if v < lo:
            return lo
        if v > hi:
            return hi
        return v
    if info['k'] == 1:
        if a > b:
            return -splint(b, a, tck)
        p, q = clip(a), clip(b)
        total = Fraction(0)
        for j in range(len(xs) - 1):
            if q <= xs[j]:
                break
            if p >= xs[j + 1]:
                continue
            l = p if p > xs[j] else xs[j]
            r = q if q < xs[j + 1] else xs[j + 1]
            slope = (ys[j + 1] - ys[j]) / (xs[j + 1] - xs[j])
            vl = ys[j] + slope * (l - xs[j])
            vr = ys[j] + slope * (r - xs[j])
            total = total + (vl + vr) * (r - l) / 2
        return total
    Fn = info['F']
    return symx.wrap(Fn(_zr(clip(b))) - Fn(_zr(clip(a))))


class interpolate_mod:
    """Stand-in for the name ``interpolate_mod`` (scipy.interpolate) in spowtd.spline."""
    splev = staticmethod(splev)
    splint = staticmethod(splint)
    splrep = staticmethod(splrep)
    splantider = staticmethod(splantider)


# ---- exp / log / pow / normal cdf: uninterpreted with the facts that are used -------------
def _uf1(name):
    return engine().uf(name, z3.RealSort(), z3.RealSort())


def sym_exp(x):
    if isinstance(x, (nplite.ndarray, list, tuple)):
        a = nplite.asarray(x)
        return nplite.ndarray([sym_exp(v) for v in a._d], a.shape, nplite.float64)
    eng = engine()
    zx = z3.simplify(_zr(x))
    if z3.is_rational_value(zx) and symx._num_to_py(zx) == 0:
        return Fraction(1)
    r = _uf1('exp')(zx)
    eng.add_axiom(r > 0)
    return symx.wrap(r)


def sym_log(x):
    if isinstance(x, (nplite.ndarray, list, tuple)):
        a = nplite.asarray(x)
        return nplite.ndarray([sym_log(v) for v in a._d], a.shape, nplite.float64)
    if isinstance(x, Sym):
        if x <= 0:
            raise ShimGap('log of a non-positive value (numpy returns -inf/nan with a warning)')
    elif x <= 0:
        raise ShimGap('log of a non-positive value (numpy returns -inf/nan with a warning)')
    zx = z3.simplify(_zr(x))
    if z3.is_rational_value(zx) and symx._num_to_py(zx) == 1:
        return Fraction(0)
    r = _uf1('log')(zx)
    engine().add_axiom(_uf1('exp')(r) == zx)      # exp(log t) = t for every log term that occurs
    return symx.wrap(r)


def norm_cdf(x, loc=0, scale=1):
    """scipy.stats.norm.cdf: uninterpreted Phi((x-loc)/scale) with range and monotonicity
    instantiated on the terms that occur."""
    if isinstance(x, (nplite.ndarray, list, tuple)):
        a = nplite.asarray(x)
        return nplite.ndarray([norm_cdf(v, loc, scale) for v in a._d], a.shape, nplite.float64)
    eng = engine()
    arg = (x - loc) / scale
    r = _uf1('Phi')(z3.simplify(_zr(arg)))
    eng.add_lazy_axiom(z3.And(r >= 0, r <= 1))
    return symx.wrap(r)


class _Norm:
    cdf = staticmethod(norm_cdf)


class scipy_stats:
    norm = _Norm()


# ---- scipy.integrate.quad ----------------------------------------------------------------
class QuadRecord:
    __slots__ = ('key', 'a', 'b', 'xi', 'value', 'result')

    def __init__(self, key, a, b, xi, value, result):
        self.key, self.a, self.b, self.xi, self.value, self.result = key, a, b, xi, value, result


def quad(f, a, b, *args, **kw):
    """Contract: the definite integral of f from a to b, an uninterpreted I_f(a, b).

    f is *called* on a fresh point xi strictly between the limits, so its own
    preconditions and exceptions are explored (one path per piece of a piecewise
    integrand) and its term is available to the oracle (engine().quad_log).  Facts
    supplied: I_f(a, a) = 0; I_f(a, b) = -I_f(b, a) by construction (argument order is
    normalised); sign of the integral from the sign of the integrand at xi is left to
    the harness (it knows whether the integrand is sign-definite)."""
    if kw or args:
        raise ShimGap('quad options %r' % (sorted(kw),))
    eng = engine()
    keyfn = getattr(eng, 'quad_key', None)
    key = keyfn(f) if keyfn else None
    if key is None:
        ids = eng.__dict__.setdefault('_quad_ids', {})
        ident = (id(getattr(f, '__self__', None)), getattr(f, '__func__', f))
        if ident not in ids:
            ids[ident] = 'f%d' % (len(ids) + 1)
        key = ids[ident]
    I = eng.uf('I_' + key, z3.RealSort(), z3.RealSort(), z3.RealSort())
    log = eng.__dict__.setdefault('quad_log', [])
    if not isinstance(a, Sym) and not isinstance(b, Sym) and a == b:
        return (Fraction(0), Fraction(0))
    xi = eng.fresh_real('quad_xi')
    if a <= b:
        if a == b:
            return (Fraction(0), Fraction(0))
        eng.assume(a < xi)
        eng.assume(xi < b)
        res = symx.wrap(I(_zr(a), _zr(b)))
    else:
        eng.assume(b < xi)
        eng.assume(xi < a)
        res = -symx.wrap(I(_zr(b), _zr(a)))
    val = f(xi)
    log.append(QuadRecord(key, a, b, xi, val, res))
    nonneg = getattr(eng, 'quad_nonneg', None)
    if nonneg is not None and nonneg(key):
        # the harness vouches that this integrand is non-negative everywhere (stated among
        # its assumptions): the integral over an increasing range is then non-negative
        if a <= b:
            eng.add_axiom(symx.zbool(res >= 0))
        else:
            eng.add_axiom(symx.zbool(res <= 0))
    return (res, Fraction(0))


class integrate_mod:
    quad = staticmethod(quad)


# ---- yaml -----------------------------------------------------------------------------------
class YamlShim:
    """safe_load is the real one (parameter files are concrete text); dump records the
    object handed over, so that the oracle reads structure and (symbolic) numbers back."""

    def __init__(self, lift=True):
        import yaml as _yaml
        self._yaml = _yaml
        self.dumped = []
        self.lift = lift

    def safe_load(self, stream):
        data = self._yaml.safe_load(stream)
        return _lift_floats(data) if self.lift else data

    def dump(self, data, stream=None, **kw):
        self.dumped.append(data)
        if stream is not None:
            stream.write('<yaml:%d>' % (len(self.dumped) - 1))
        return None


def _lift_floats(obj):
    """Parsed YAML numbers -> exact rationals of their decimal text is not available after
    parsing; the double is converted exactly (R-mode works on the doubles' exact values)."""
    if isinstance(obj, dict):
        return {k: _lift_floats(v) for k, v in obj.items()}
    if isinstance(obj, list):
        return [_lift_floats(v) for v in obj]
    if isinstance(obj, float) and nplite.float_mode() == 'R':
        return Fraction(obj)
    return obj
