"""nplite -- the subset of numpy that spowtd uses, over symx proxies.

Arrays are flat Python lists with a shape (1-D or 2-D).  Element values are
proxies or concrete ints / Fractions / bools (R-mode) or floats (F-mode).
Anything that needs a concrete structure (boolean masks used as indices,
``nonzero``, ``len`` of a filtered array) is concretised by *forking* through
the engine, never merged with ``ite``.  Unimplemented features raise ShimGap.
"""

import builtins
import functools
import math
import operator
from fractions import Fraction

from . import symx
from .symx import ShimGap, Sym, SymBool, SymInt, SymReal, SymF64

_MODE = {'float': 'R'}


def set_float_mode(mode):
    assert mode in ('R', 'F')
    _MODE['float'] = mode
    symx.FLOAT_MODE['mode'] = mode


def float_mode():
    return _MODE['float']


# ---- dtypes -----------------------------------------------------------------
class _DType:
    def __init__(self, name, kind, pytype):
        self.name = name
        self.kind = kind
        self.pytype = pytype

    def __eq__(self, other):
        o = _as_dtype(other, strict=False)
        return o is not None and o.kind == self.kind

    def __ne__(self, other):
        return not self.__eq__(other)

    def __hash__(self):
        return hash(self.kind)

    def __repr__(self):
        return 'dtype(%s)' % self.name

    def __call__(self, x=0):
        # np.int64(3), np.float64(x)
        return _cast_scalar(x, self)


bool_ = _DType('bool', 'b', bool)
int64 = _DType('int64', 'i', int)
float64 = _DType('float64', 'f', float)
object_ = _DType('object', 'O', object)
integer = 'integer'
floating = 'floating'


def _as_dtype(d, strict=True):
    if isinstance(d, _DType):
        return d
    if d is bool or d == 'bool':
        return bool_
    if d is int or d in ('int64', 'int', 'i8', 'int32'):
        return int64
    if d is float or d in ('float64', 'float', 'f8', 'double'):
        return float64
    if d is object:
        return object_
    k = getattr(d, '_vf_kind', None)      # the loader's int / float stand-ins used as dtype
    if k == 'i':
        return int64
    if k == 'f':
        return float64
    if strict:
        raise ShimGap('dtype %r' % (d,))
    return None


def issubdtype(d, parent):
    d = _as_dtype(d)
    if parent == integer or parent is int:
        return d.kind == 'i'
    if parent == floating or parent is float:
        return d.kind == 'f'
    p = _as_dtype(parent)
    return d.kind == p.kind


def _cast_scalar(x, dt):
    if dt.kind == 'b':
        if isinstance(x, SymBool) or isinstance(x, bool):
            return x
        r = (x != 0)
        return r
    if dt.kind == 'i':
        if isinstance(x, SymBool):
            return int(bool(x))          # fork: run structure becomes concrete
        if isinstance(x, bool):
            return int(x)
        if isinstance(x, (int, SymInt)):
            return x
        return trunc(x)
    if dt.kind == 'f':
        if isinstance(x, SymBool):
            x = int(bool(x))
        if isinstance(x, bool):
            x = int(x)
        if float_mode() == 'R':
            if isinstance(x, int):
                return Fraction(x)
            if isinstance(x, float):
                if x != x:
                    return x          # NaN placeholder (np.empty(...)[:] = np.nan), overwritten before use
                return symx._to_fraction(x)
            if isinstance(x, SymInt):
                return symx.wrap(symx.z3.ToReal(x.z))
            return x
        else:
            if isinstance(x, (int, Fraction)):
                return float(x)
            if isinstance(x, SymInt):
                # an integer below 2**53 is exactly representable; it stays an exact
                # integer term (sums and differences of such values are exact too) and is
                # converted to a Float64 term only when it meets a non-integer operation
                return x
            return x
    return x


def trunc(x):
    """int(x) for proxies and concrete numbers."""
    if isinstance(x, (int, SymInt)):
        return x
    if isinstance(x, SymBool):
        return int(bool(x))
    if isinstance(x, Fraction):
        return math.trunc(x)
    if isinstance(x, float):
        return int(x)
    if isinstance(x, SymReal):
        return x.__trunc__()
    if isinstance(x, SymF64):
        return x.trunc_to_int()
    if isinstance(x, str):
        return int(x)
    try:
        return int(x)
    except Exception as e:  # pragma: no cover
        raise ShimGap('int(%r)' % (x,)) from e


def _infer_kind(values):
    kind = 'b'
    if not values:
        return 'f'
    for v in values:
        if isinstance(v, (bool, SymBool)):
            continue
        if isinstance(v, (int, SymInt)):
            if kind == 'b':
                kind = 'i'
            continue
        if isinstance(v, (Fraction, float, SymReal, SymF64)):
            kind = 'f'
            continue
        try:
            import numpy as _np
            if isinstance(v, _np.bool_):
                continue
            if isinstance(v, _np.integer):
                if kind == 'b':
                    kind = 'i'
                continue
            if isinstance(v, _np.floating):
                kind = 'f'
                continue
        except ImportError:
            pass
        return 'O'
    return kind


_KINDS = {'b': bool_, 'i': int64, 'f': float64, 'O': object_}


def _flatten(obj):
    """Nested sequences -> (flat list, shape)."""
    if isinstance(obj, ndarray):
        return list(obj._d), obj.shape
    if isinstance(obj, (list, tuple)) or (hasattr(obj, '__iter__') and not isinstance(obj, (str, bytes, Sym, dict))):
        items = list(obj)
        if items and all(isinstance(it, (list, tuple, ndarray)) for it in items):
            rows = [_flatten(it) for it in items]
            shp = rows[0][1]
            for _, s in rows:
                if s != shp:
                    raise ShimGap('ragged array')
            flat = []
            for d, _ in rows:
                flat.extend(d)
            return flat, (len(items),) + shp
        return items, (len(items),)
    return [obj], ()


class ndarray:
    __slots__ = ('_d', 'shape', 'dtype')
    __array_priority__ = 2000
    __hash__ = None

    def __init__(self, data, shape, dtype):
        self._d = data
        self.shape = shape
        self.dtype = dtype

    # -- basic protocol ------------------------------------------------------
    def __len__(self):
        if not self.shape:
            raise TypeError('len() of unsized object')
        return self.shape[0]

    @property
    def ndim(self):
        return len(self.shape)

    @property
    def size(self):
        n = 1
        for s in self.shape:
            n *= s
        return n

    @property
    def T(self):
        return self.transpose()

    def __iter__(self):
        if len(self.shape) == 1:
            return iter(list(self._d))
        if len(self.shape) == 2:
            return iter([self._row(i) for i in range(self.shape[0])])
        raise TypeError('iteration over a 0-d array')

    def _row(self, i):
        n = self.shape[1]
        return ndarray(self._d[i * n:(i + 1) * n], (n,), self.dtype)

    def __repr__(self):
        return 'nplite.array(%r, shape=%r)' % (self._d, self.shape)

    def tolist(self):
        if len(self.shape) == 1:
            return list(self._d)
        if len(self.shape) == 2:
            return [self._row(i).tolist() for i in range(self.shape[0])]
        return self._d[0]

    def copy(self):
        return ndarray(list(self._d), self.shape, self.dtype)

    def item(self):
        if self.size != 1:
            raise ValueError('can only convert an array of size 1 to a Python scalar')
        return self._d[0]

    def __bool__(self):
        if self.size != 1:
            raise ValueError('The truth value of an array with more than one element is ambiguous')
        return bool(self._d[0])

    def astype(self, dt):
        dt = _as_dtype(dt)
        return ndarray([_cast_scalar(v, dt) for v in self._d], self.shape, dt)

    def transpose(self):
        if len(self.shape) == 1:
            return self
        r, c = self.shape
        return ndarray([self._d[i * c + j] for j in range(c) for i in range(r)], (c, r), self.dtype)

    # -- indexing --------------------------------------------------------------
    def _norm_index(self, i, n):
        if isinstance(i, (SymInt, SymBool)):
            i = int(i)
        try:
            i = operator.index(i)
        except TypeError:
            raise IndexError('only integers, slices and integer or boolean arrays are valid indices')
        if i < -n or i >= n:
            raise IndexError('index %d is out of bounds for axis 0 with size %d' % (i, n))
        return i + n if i < 0 else i

    def _index_list(self, key, n):
        """Positions along an axis of length n selected by key (concrete)."""
        if isinstance(key, slice):
            start, stop, step = key.start, key.stop, key.step
            start = None if start is None else operator.index(int(start) if isinstance(start, Sym) else start)
            stop = None if stop is None else operator.index(int(stop) if isinstance(stop, Sym) else stop)
            step = None if step is None else operator.index(step)
            return list(range(*slice(start, stop, step).indices(n)))
        if isinstance(key, ndarray):
            if key.dtype.kind == 'b':
                if key.shape != (n,):
                    raise IndexError('boolean index did not match indexed array; dimension is %d but boolean dimension is %s' % (n, key.shape))
                return [i for i, b in enumerate(key._d) if bool(b)]
            return [self._norm_index(i, n) for i in key._d]
        if isinstance(key, (list, tuple)):
            if key and all(isinstance(k, (bool, SymBool)) for k in key):
                if len(key) != n:
                    raise IndexError('boolean index did not match')
                return [i for i, b in enumerate(key) if bool(b)]
            return [self._norm_index(i, n) for i in key]
        return None

    def __getitem__(self, key):
        if len(self.shape) == 1:
            if isinstance(key, tuple):
                if len(key) == 1:
                    key = key[0]
                else:
                    raise IndexError('too many indices for array')
            idx = self._index_list(key, self.shape[0])
            if idx is None:
                return self._d[self._norm_index(key, self.shape[0])]
            return ndarray([self._d[i] for i in idx], (len(idx),), self.dtype)
        if len(self.shape) == 2:
            r, c = self.shape
            if not isinstance(key, tuple):
                key = (key, slice(None))
            if len(key) != 2:
                raise IndexError('too many indices')
            ri = self._index_list(key[0], r)
            ci = self._index_list(key[1], c)
            if ri is None and ci is None:
                return self._d[self._norm_index(key[0], r) * c + self._norm_index(key[1], c)]
            if ri is None:
                i = self._norm_index(key[0], r)
                return ndarray([self._d[i * c + j] for j in ci], (len(ci),), self.dtype)
            if ci is None:
                j = self._norm_index(key[1], c)
                return ndarray([self._d[i * c + j] for i in ri], (len(ri),), self.dtype)
            return ndarray([self._d[i * c + j] for i in ri for j in ci], (len(ri), len(ci)), self.dtype)
        raise IndexError('0-d array')

    def _coerce(self, v):
        return _cast_scalar(v, self.dtype) if self.dtype.kind != 'O' else v

    def __setitem__(self, key, value):
        if len(self.shape) == 1:
            if isinstance(key, tuple) and len(key) == 1:
                key = key[0]
            idx = self._index_list(key, self.shape[0])
            if idx is None:
                self._d[self._norm_index(key, self.shape[0])] = self._coerce(value)
                return
            vals = self._bcast(value, len(idx))
            for i, v in zip(idx, vals):
                self._d[i] = self._coerce(v)
            return
        if len(self.shape) == 0:
            # a[mask] = v on a 0-d array: the mask is one boolean; a[()] = v / a[...] = v assign
            if key is Ellipsis or (isinstance(key, tuple) and len(key) == 0):
                hit = True
            else:
                m = key._d[0] if isinstance(key, ndarray) and key.shape == () else key
                if not isinstance(m, (bool, SymBool)) and not (isinstance(key, ndarray) and key.dtype.kind == 'b'):
                    raise IndexError('too many indices for array: array is 0-dimensional')
                hit = bool(m)
            if hit:
                self._d[0] = self._coerce(self._bcast(value, 1)[0])
            return
        r, c = self.shape
        if not isinstance(key, tuple):
            key = (key, slice(None))
        ri = self._index_list(key[0], r)
        ci = self._index_list(key[1], c)
        if ri is None and ci is None:
            self._d[self._norm_index(key[0], r) * c + self._norm_index(key[1], c)] = self._coerce(value)
            return
        if ri is None:
            ri = [self._norm_index(key[0], r)]
        if ci is None:
            ci = [self._norm_index(key[1], c)]
        if isinstance(value, ndarray) and value.ndim == 2:
            if value.shape != (len(ri), len(ci)):
                raise ValueError('could not broadcast')
            vals = value._d
        else:
            row = self._bcast(value, len(ci)) if not (isinstance(value, ndarray) and len(value) == len(ri) and len(ci) == 1 and len(ri) != 1) else None
            if row is None:
                vals = list(value._d)
            else:
                vals = row * len(ri)
        k = 0
        for i in ri:
            for j in ci:
                self._d[i * c + j] = self._coerce(vals[k])
                k += 1

    @staticmethod
    def _bcast(value, n):
        if isinstance(value, ndarray):
            if value.shape == ():
                return [value._d[0]] * n
            if value.ndim != 1:
                raise ShimGap('broadcast of %r-d value' % value.ndim)
            if len(value) == n:
                return list(value._d)
            if len(value) == 1:
                return [value._d[0]] * n
            raise ValueError('shape mismatch: value array of shape (%d,) could not be broadcast to indexing result of shape (%d,)' % (len(value), n))
        if isinstance(value, (list, tuple)):
            if len(value) == n:
                return list(value)
            if len(value) == 1:
                return [value[0]] * n
            raise ValueError('shape mismatch in assignment')
        return [value] * n

    # -- element-wise operators ---------------------------------------------------
    def _binop(self, other, fn, kind=None, rev=False):
        if isinstance(other, ndarray):
            if other.shape == self.shape:
                od = other._d
            elif other.shape == () or other.size == 1 and other.ndim <= 1:
                od = [other._d[0]] * len(self._d)
            elif self.size == 1 and self.ndim <= 1:
                return other._binop(self, fn, kind, not rev)
            elif self.ndim == 2 and other.ndim == 1 and other.shape[0] == self.shape[1]:
                od = list(other._d) * self.shape[0]
            else:
                raise ValueError('operands could not be broadcast together with shapes %s %s' % (self.shape, other.shape))
        elif isinstance(other, (list, tuple)):
            return self._binop(array(other), fn, kind, rev)
        else:
            od = [other] * len(self._d)
        if rev:
            out = [fn(b, a) for a, b in zip(self._d, od)]
        else:
            out = [fn(a, b) for a, b in zip(self._d, od)]
        dt = _KINDS[kind] if kind else _KINDS[_infer_kind(out)] if out else self.dtype
        if kind is None and self.dtype.kind == 'f' and dt.kind != 'f':
            dt = float64
        return ndarray(out, self.shape, dt)

    def __add__(self, o):
        return self._binop(o, operator.add)

    def __radd__(self, o):
        return self._binop(o, operator.add, rev=True)

    def __sub__(self, o):
        return self._binop(o, operator.sub)

    def __rsub__(self, o):
        return self._binop(o, operator.sub, rev=True)

    def __mul__(self, o):
        return self._binop(o, operator.mul)

    def __rmul__(self, o):
        return self._binop(o, operator.mul, rev=True)

    def __truediv__(self, o):
        return self._binop(o, _truediv, 'f')

    def __rtruediv__(self, o):
        return self._binop(o, _truediv, 'f', rev=True)

    def __floordiv__(self, o):
        return self._binop(o, operator.floordiv)

    def __rfloordiv__(self, o):
        return self._binop(o, operator.floordiv, rev=True)

    def __rmod__(self, o):
        return self._binop(o, operator.mod, rev=True)

    def __mod__(self, o):
        return self._binop(o, operator.mod)

    def __pow__(self, o):
        return self._binop(o, operator.pow)

    def __rpow__(self, o):
        return self._binop(o, operator.pow, rev=True)

    def __neg__(self):
        return ndarray([-v for v in self._d], self.shape, self.dtype)

    def __lt__(self, o):
        return self._binop(o, operator.lt, 'b')

    def __le__(self, o):
        return self._binop(o, operator.le, 'b')

    def __gt__(self, o):
        return self._binop(o, operator.gt, 'b')

    def __ge__(self, o):
        return self._binop(o, operator.ge, 'b')

    def __eq__(self, o):
        return self._binop(o, _eq, 'b')

    def __ne__(self, o):
        return self._binop(o, _ne, 'b')

    def __and__(self, o):
        return self._binop(o, _and, 'b' if self.dtype.kind == 'b' else None)

    __rand__ = __and__

    def __or__(self, o):
        return self._binop(o, _or, 'b' if self.dtype.kind == 'b' else None)

    __ror__ = __or__

    def __invert__(self):
        if self.dtype.kind != 'b':
            raise ShimGap('~ on a non-boolean array')
        return ndarray([_not(v) for v in self._d], self.shape, bool_)

    def __iadd__(self, o):
        r = self.__add__(o)
        self._d[:] = [self._coerce(v) for v in r._d]
        return self

    def __isub__(self, o):
        r = self.__sub__(o)
        self._d[:] = [self._coerce(v) for v in r._d]
        return self

    def __imul__(self, o):
        r = self.__mul__(o)
        self._d[:] = [self._coerce(v) for v in r._d]
        return self

    # -- reductions -------------------------------------------------------------------
    def all(self):
        return all_(self)

    def any(self):
        return any_(self)

    def sum(self):
        return sum_(self)

    def mean(self):
        return mean(self)

    def min(self):
        return amin(self)

    def max(self):
        return amax(self)

    def dot(self, other):
        return dot(self, other)

    def nonzero(self):
        return nonzero(self)

    def cumsum(self, axis=None, dtype=None):
        return cumsum(self, axis=axis, dtype=dtype)

    def ptp(self):
        return ptp(self)

    def argmax(self):
        return argmax(self)

    def argmin(self):
        return argmin(self)

    def clip(self, lo=None, hi=None):
        return clip(self, lo, hi)

    def __itruediv__(self, o):
        r = self / o
        self._d[:] = [self._coerce(v) for v in r._d]
        return self


def _truediv(a, b):
    if isinstance(a, bool):
        a = int(a)
    if isinstance(b, bool):
        b = int(b)
    if float_mode() == 'R':
        if isinstance(a, int) and not isinstance(b, (Sym, float)):
            a = Fraction(a)
        if isinstance(a, float):
            a = symx._to_fraction(a)
        if isinstance(b, float):
            b = symx._to_fraction(b)
        if isinstance(b, (int, Fraction)):
            if b == 0:
                if _ERRSTATE_IGNORE[0]:
                    return float('nan')
                raise ShimGap('numpy division by zero (inf/nan)')
        elif isinstance(b, Sym) and _ERRSTATE_IGNORE[0]:
            if b == 0:          # explicit path: numpy gives inf/nan here, no exception
                return float('nan')
        return a / b
    else:
        if isinstance(a, (int, Fraction)):
            a = float(a)
        if isinstance(b, (int, Fraction)):
            b = float(b)
        if isinstance(a, Sym) or isinstance(b, Sym):
            # numpy array division: IEEE semantics, x/0 = inf (warning, no exception)
            return symx.wrapf(symx.z3.fpDiv(symx._rne(), symx._lift_f64(a), symx._lift_f64(b)))
        if b == 0:
            if a == 0 or a != a:
                return float('nan')
            return float('inf') if (a > 0) == (str(b)[0] != '-') else float('-inf')
        return a / b


def _eq(a, b):
    r = (a == b)
    return r


def _ne(a, b):
    return a != b


def _and(a, b):
    if isinstance(a, (bool, SymBool)) and isinstance(b, (bool, SymBool)):
        if isinstance(a, bool):
            return b if a else False
        return a & b
    return a & b


def _or(a, b):
    if isinstance(a, (bool, SymBool)) and isinstance(b, (bool, SymBool)):
        if isinstance(a, bool):
            return True if a else b
        return a | b
    return a | b


def _not(a):
    if isinstance(a, bool):
        return not a
    if isinstance(a, SymBool):
        return ~a
    raise ShimGap('logical not of %r' % (a,))


# ---- creation ----------------------------------------------------------------------
def array(obj, dtype=None, copy=True):
    if isinstance(obj, ndarray):
        flat, shape = list(obj._d), obj.shape
        dt = obj.dtype
    else:
        flat, shape = _flatten(obj)
        flat = [_unbox(v) for v in flat]
        dt = _KINDS[_infer_kind(flat)]
    if dtype is not None:
        dt = _as_dtype(dtype)
    if dt.kind != 'O':
        flat = [_cast_scalar(v, dt) for v in flat]
    return ndarray(flat, shape, dt)


def _unbox(v):
    try:
        import numpy as _np
        if isinstance(v, _np.generic):
            return v.item()
    except ImportError:
        pass
    if isinstance(v, float) and float_mode() == 'R':
        return symx._to_fraction(v)
    return v


def asarray(obj, dtype=None):
    if isinstance(obj, ndarray) and (dtype is None or _as_dtype(dtype) == obj.dtype):
        return obj
    return array(obj, dtype)


def _shape_of(shape):
    if isinstance(shape, (int, SymInt)):
        return (int(shape),)
    return tuple(int(s) for s in shape)


def _zero(dt):
    if dt.kind == 'b':
        return False
    if dt.kind == 'i':
        return 0
    return Fraction(0) if float_mode() == 'R' else 0.0


def zeros(shape, dtype=float):
    dt = _as_dtype(dtype)
    shape = _shape_of(shape)
    n = 1
    for s in shape:
        n *= s
    return ndarray([_zero(dt)] * n, shape, dt)


class _Uninit:
    """Marker for np.empty cells that are read before being written."""

    def __repr__(self):
        return '<uninitialised>'


def empty(shape, dtype=float):
    return zeros(shape, dtype)


def ones(shape, dtype=float):
    z = zeros(shape, dtype)
    one = _cast_scalar(1, z.dtype)
    z._d[:] = [one] * len(z._d)
    return z


def linspace(start, stop, num=50):
    num = int(num)
    start = _cast_scalar(start, float64)
    stop = _cast_scalar(stop, float64)
    if num == 1:
        return ndarray([start], (1,), float64)
    step = (stop - start) / (num - 1)
    out = [start + i * step for i in range(num)]
    out[-1] = stop
    return ndarray(out, (num,), float64)


def where(cond, a=None, b=None):
    if a is None and b is None:
        return nonzero(cond)
    c = asarray(cond) if isinstance(cond, (ndarray, list, tuple)) else None
    if c is None:
        return a if bool(cond) else b
    n = len(c._d)
    av = asarray(a)._d if isinstance(a, (ndarray, list, tuple)) else [a] * n
    bv = asarray(b)._d if isinstance(b, (ndarray, list, tuple)) else [b] * n
    out = [x if bool(k) else y for k, x, y in zip(c._d, av, bv)]
    return ndarray(out, c.shape, _KINDS[_infer_kind(out)])


def ndenumerate(arr):
    a = asarray(arr)
    if a.ndim == 1:
        return iter([((i,), v) for i, v in enumerate(a._d)])
    if a.ndim == 0:
        return iter([((), a._d[0])])
    r, c = a.shape
    return iter([((i, j), a._d[i * c + j]) for i in range(r) for j in range(c)])


def resize(a, new_shape):
    """np.resize: the flattened array repeated / truncated to the new size."""
    a = asarray(a)
    shape = _shape_of(new_shape)
    n = 1
    for k in shape:
        n *= k
    if a.size == 0:
        return zeros(shape, a.dtype)
    flat = [a._d[i % a.size] for i in range(n)]
    return ndarray(flat, shape, a.dtype)


def searchsorted(a, v, side='left', sorter=None):
    """np.searchsorted on a sorted 1-D array (comparisons fork when symbolic)."""
    if sorter is not None:
        raise ShimGap('searchsorted(sorter=...)')
    a = asarray(a)

    def one(x):
        k = 0
        for e in a._d:
            if (e < x) if side == 'left' else (e <= x):
                k += 1
            else:
                break
        return k
    if isinstance(v, (ndarray, list, tuple)):
        arr = asarray(v)
        return ndarray([one(x) for x in arr._d], arr.shape, int64)
    return one(v)


def append(arr, values, axis=None):
    a = asarray(arr)
    v = asarray(values) if isinstance(values, (ndarray, list, tuple)) else asarray([values])
    return concatenate((a, v))


_ERRSTATE_IGNORE = [0]


class errstate:
    """np.errstate(...): floating-point warnings do not exist here.  The context only records that the
    code declared division by zero / invalid operations as expected (divide= or invalid= 'ignore'):
    inside it an exact division by zero gives nan (a value the code is then expected to discard, e.g.
    through np.where) instead of ending the path with a shim gap."""

    def __init__(self, **kw):
        self._ignore = any(kw.get(k) == 'ignore' for k in ('divide', 'invalid', 'all'))

    def __enter__(self):
        if self._ignore:
            _ERRSTATE_IGNORE[0] += 1
        return self

    def __exit__(self, *a):
        if self._ignore:
            _ERRSTATE_IGNORE[0] -= 1
        return False


def empty_like(a, dtype=None):
    a = asarray(a)
    return zeros(a.shape, dtype if dtype is not None else a.dtype)


zeros_like = empty_like


def full(shape, value, dtype=None):
    z = zeros(shape, dtype if dtype is not None else float)
    z._d[:] = [z._coerce(value)] * len(z._d)
    return z


def arange(*args):
    return ndarray(list(range(*[int(a) for a in args])), (len(range(*[int(a) for a in args])),), int64)


# ---- functions -----------------------------------------------------------------------
def diff(a):
    a = asarray(a)
    if a.ndim != 1:
        raise ShimGap('diff on %d-d' % a.ndim)
    d = a._d
    if a.dtype.kind == 'b':
        out = [_ne(d[i + 1], d[i]) for i in range(len(d) - 1)]
        return ndarray(out, (len(out),), bool_)
    out = [d[i + 1] - d[i] for i in range(len(d) - 1)]
    return ndarray(out, (len(out),), a.dtype)


def concatenate(seq, axis=0):
    parts = [asarray(p) for p in seq]
    flat = []
    for p in parts:
        if p.ndim != 1:
            raise ShimGap('concatenate of %d-d arrays' % p.ndim)
        flat.extend(p._d)
    kinds = [p.dtype.kind for p in parts if len(p._d)] or ['f']
    kind = 'O' if 'O' in kinds else 'f' if 'f' in kinds else 'i' if 'i' in kinds else 'b'
    dt = _KINDS[kind]
    if kind != 'O':
        flat = [_cast_scalar(v, dt) for v in flat]
    return ndarray(flat, (len(flat),), dt)


def cumsum(a, axis=None, dtype=None):
    a = asarray(a)
    if dtype is not None:
        a = a.astype(dtype)
    if a.ndim > 1 and axis is not None:
        raise ShimGap('cumsum along an axis of a %d-d array' % a.ndim)
    out = []
    acc = None
    for v in a._d:
        if isinstance(v, (bool, SymBool)):
            v = int(bool(v))
        acc = v if acc is None else acc + v
        out.append(acc)
    return ndarray(out, (len(out),), int64 if a.dtype.kind == 'b' else a.dtype)


def nonzero(a):
    a = asarray(a)
    if a.ndim != 1:
        raise ShimGap('nonzero on %d-d' % a.ndim)
    idx = [i for i, v in enumerate(a._d) if bool(v)]
    return (ndarray(idx, (len(idx),), int64),)


def flatnonzero(a):
    return nonzero(asarray(a).ravel() if asarray(a).ndim != 1 else a)[0]


def count_nonzero(a):
    return len(nonzero(asarray(a).ravel() if asarray(a).ndim != 1 else a)[0])


def ptp(a):
    return amax(a) - amin(a)


def argmax(a):
    a = asarray(a)
    if a.size == 0:
        raise ValueError('attempt to get argmax of an empty sequence')
    best = 0
    for i in range(1, len(a._d)):
        if a._d[i] > a._d[best]:
            best = i
    return best


def argmin(a):
    a = asarray(a)
    if a.size == 0:
        raise ValueError('attempt to get argmin of an empty sequence')
    best = 0
    for i in range(1, len(a._d)):
        if a._d[i] < a._d[best]:
            best = i
    return best


def clip(a, lo, hi):
    return minimum(maximum(a, lo), hi) if lo is not None and hi is not None else (maximum(a, lo) if hi is None else minimum(a, hi))


def full_like(a, value, dtype=None):
    a = asarray(a)
    return full(a.shape, value, dtype if dtype is not None else a.dtype)


def ones_like(a, dtype=None):
    a = asarray(a)
    return ones(a.shape, dtype if dtype is not None else a.dtype)


def array_equal(a, b):
    a, b = asarray(a), asarray(b)
    if a.shape != b.shape:
        return False
    return bool(all_(a == b)) if a.size else True


def logical_and(a, b):
    return _elementwise2(a, b, lambda x, y: _and(x if isinstance(x, (bool, SymBool)) else (x != 0), y if isinstance(y, (bool, SymBool)) else (y != 0)))


def logical_or(a, b):
    return _elementwise2(a, b, lambda x, y: _or(x if isinstance(x, (bool, SymBool)) else (x != 0), y if isinstance(y, (bool, SymBool)) else (y != 0)))


def logical_not(a):
    return _map(a, lambda x: _not(x if isinstance(x, (bool, SymBool)) else (x != 0)), 'b')


def hstack(parts):
    return concatenate([asarray(p_).ravel() if asarray(p_).ndim == 0 else p_ for p_ in parts])


def flip(a):
    a = asarray(a)
    if a.ndim != 1:
        raise ShimGap('flip on %d-d' % a.ndim)
    return ndarray(list(reversed(a._d)), a.shape, a.dtype)


def argwhere(a):
    a = asarray(a)
    if a.ndim != 1:
        raise ShimGap('argwhere on %d-d' % a.ndim)
    idx = [i for i, v in enumerate(a._d) if bool(v)]
    return ndarray(idx, (len(idx), 1), int64)


def all_(a):
    a = asarray(a)
    r = True
    for v in a._d:
        r = _and(r, v if isinstance(v, (bool, SymBool)) else (v != 0))
    return r


def any_(a):
    a = asarray(a)
    r = False
    for v in a._d:
        r = _or(r, v if isinstance(v, (bool, SymBool)) else (v != 0))
    return r


def sum_(a):
    a = asarray(a)
    acc = _zero(a.dtype) if a.dtype.kind != 'b' else 0
    for v in a._d:
        if isinstance(v, (bool, SymBool)):
            v = int(bool(v))
        acc = acc + v
    return acc


def mean(a):
    a = asarray(a)
    if a.size == 0:
        raise ShimGap('mean of empty array (numpy returns nan with a warning)')
    s = sum_(a.astype(float64))
    return _truediv(s, a.size)


def amin(a):
    a = asarray(a)
    if a.size == 0:
        raise ValueError('zero-size array to reduction operation minimum which has no identity')
    m = a._d[0]
    for v in a._d[1:]:
        if v < m:
            m = v
    return m


def amax(a):
    a = asarray(a)
    if a.size == 0:
        raise ValueError('zero-size array to reduction operation maximum which has no identity')
    m = a._d[0]
    for v in a._d[1:]:
        if v > m:
            m = v
    return m


class _Ufunc2:
    """np.minimum / np.maximum: callable, with .accumulate (running extreme) and .reduce."""

    def __init__(self, pick, name):
        self._pick = pick
        self.__name__ = name

    def __call__(self, a, b):
        return _elementwise2(a, b, self._pick)

    def accumulate(self, a):
        a = asarray(a)
        if a.ndim != 1:
            raise ShimGap('%s.accumulate on %d-d' % (self.__name__, a.ndim))
        out = []
        cur = None
        for v in a._d:
            cur = v if cur is None else self._pick(cur, v)
            out.append(cur)
        return ndarray(out, a.shape, a.dtype)

    def reduce(self, a):
        a = asarray(a)
        if a.size == 0:
            raise ValueError('zero-size array to reduction operation %s which has no identity' % self.__name__)
        cur = a._d[0]
        for v in a._d[1:]:
            cur = self._pick(cur, v)
        return cur


minimum = _Ufunc2(lambda x, y: x if x <= y else y, 'minimum')
maximum = _Ufunc2(lambda x, y: x if x >= y else y, 'maximum')


def _elementwise2(a, b, fn):
    if isinstance(a, ndarray) or isinstance(b, ndarray):
        a = asarray(a) if isinstance(a, (ndarray, list, tuple)) else a
        if isinstance(a, ndarray):
            return a._binop(b, fn)
        return asarray(b)._binop(a, fn, rev=True)
    if isinstance(a, (list, tuple)):
        return asarray(a)._binop(b, fn)
    return fn(a, b)


def _map(a, fn, kind=None):
    if isinstance(a, ndarray):
        out = [fn(v) for v in a._d]
        return ndarray(out, a.shape, _KINDS[kind] if kind else a.dtype)
    if isinstance(a, (list, tuple)):
        return _map(asarray(a), fn, kind)
    return fn(a)


def isfinite(a):
    def f(v):
        if isinstance(v, float):
            return math.isfinite(v)
        if isinstance(v, SymF64):
            z3 = symx.z3
            return symx.wrap(z3.simplify(z3.Not(z3.Or(z3.fpIsNaN(v.z), z3.fpIsInf(v.z)))))
        return True
    return _map(a, f, 'b')


def isnan(a):
    def f(v):
        if isinstance(v, float):
            return math.isnan(v)
        if isinstance(v, SymF64):
            return symx.wrap(symx.z3.fpIsNaN(v.z))
        return False
    return _map(a, f, 'b')


def isscalar(x):
    return not isinstance(x, (ndarray, list, tuple, dict, set))


def ceil(a):
    def f(v):
        if isinstance(v, (int, SymInt)):
            return v
        if isinstance(v, Fraction):
            return Fraction(math.ceil(v))
        if isinstance(v, float):
            return float(math.ceil(v))
        if isinstance(v, SymReal):
            return symx.wrap(symx.z3.ToReal(v.ceil().z)) if isinstance(v.ceil(), Sym) else Fraction(v.ceil())
        raise ShimGap('ceil(%r)' % (v,))
    return _map(a, f)


def floor(a):
    def f(v):
        if isinstance(v, (int, SymInt)):
            return v
        if isinstance(v, Fraction):
            return Fraction(math.floor(v))
        if isinstance(v, float):
            return float(math.floor(v))
        if isinstance(v, SymReal):
            return symx.wrap(symx.z3.ToReal(v.floor().z)) if isinstance(v.floor(), Sym) else Fraction(v.floor())
        raise ShimGap('floor(%r)' % (v,))
    return _map(a, f)


def absolute(a):
    return _map(a, abs)


abs_ = absolute


def dot(a, b):
    a = asarray(a)
    b = asarray(b)
    if a.ndim == 2 and b.ndim == 2:
        r, k = a.shape
        k2, c = b.shape
        if k != k2:
            raise ValueError('shapes not aligned')
        out = []
        for i in range(r):
            for j in range(c):
                acc = _zero(float64)
                for t in range(k):
                    x = a._d[i * k + t]
                    y = b._d[t * c + j]
                    if _is_zero(x) or _is_zero(y):
                        continue
                    acc = acc + x * y
                out.append(acc)
        return ndarray(out, (r, c), float64)
    if a.ndim == 2 and b.ndim == 1:
        r, k = a.shape
        if k != b.shape[0]:
            raise ValueError('shapes not aligned')
        out = []
        for i in range(r):
            acc = _zero(float64)
            for t in range(k):
                x = a._d[i * k + t]
                y = b._d[t]
                if _is_zero(x) or _is_zero(y):
                    continue
                acc = acc + x * y
            out.append(acc)
        return ndarray(out, (r,), float64)
    if a.ndim == 1 and b.ndim == 1:
        if a.shape != b.shape:
            raise ValueError('shapes not aligned')
        acc = _zero(float64)
        for x, y in zip(a._d, b._d):
            if _is_zero(x) or _is_zero(y):
                continue
            acc = acc + x * y
        return acc
    raise ShimGap('dot of shapes %s %s' % (a.shape, b.shape))


def _is_zero(x):
    return not isinstance(x, Sym) and x == 0


def allclose(a, b, rtol=Fraction(1, 100000), atol=Fraction(1, 100000000), _elementwise=False):
    """|a - b| <= atol + rtol * |b| element-wise (numpy's definition)."""
    a = asarray(a) if isinstance(a, (ndarray, list, tuple)) else a
    b = asarray(b) if isinstance(b, (ndarray, list, tuple)) else b

    def close(x, y):
        if float_mode() == 'F':
            rt = float(rtol)
            at = float(atol)
            if isinstance(x, SymInt):
                x = SymF64(symx._lift_f64(x))
            if isinstance(x, int):
                x = float(x)
            if isinstance(y, int):
                y = float(y)
            return abs(x - y) <= at + rt * abs(y)
        if isinstance(x, Sym) and isinstance(y, Sym) and x.z.eq(y.z):
            return True          # the same term: |x - y| = 0 <= atol
        d = x - y
        bound = atol + rtol * abs(y)
        return _and(d <= bound, -d <= bound)
    if isinstance(a, ndarray):
        r = a._binop(b, close, 'b')
        return r if _elementwise else all_(r)
    if isinstance(b, ndarray):
        r = b._binop(a, lambda y, x: close(x, y), 'b')
        return r if _elementwise else all_(r)
    return close(a, b)


def isclose(a, b, rtol=Fraction(1, 100000), atol=Fraction(1, 100000000)):
    """np.isclose: the element-wise flags (a boolean array for array arguments, one flag for scalars)."""
    return allclose(a, b, rtol, atol, _elementwise=True)


def interp(x, xp, fp):
    """np.interp: piecewise linear, clamped to fp[0] / fp[-1] outside xp."""
    xp = asarray(xp)
    fp = asarray(fp)
    if len(xp) != len(fp):
        raise ValueError('fp and xp are not of the same length.')
    if len(xp) == 0:
        raise ValueError('array of sample points is empty')

    def one(v):
        n = len(xp)
        if v <= xp._d[0]:
            if v == xp._d[0]:
                return fp._d[0]
            return fp._d[0]
        if v >= xp._d[n - 1]:
            return fp._d[n - 1]
        # xp assumed increasing (numpy does not check); locate the segment by forking
        for j in range(n - 1):
            if v < xp._d[j + 1]:
                x0, x1 = xp._d[j], xp._d[j + 1]
                y0, y1 = fp._d[j], fp._d[j + 1]
                if v == x0:
                    return y0
                return y0 + (y1 - y0) * _truediv(v - x0, x1 - x0)
        return fp._d[n - 1]
    return _map(asarray(x) if isinstance(x, (ndarray, list, tuple)) else x, one, 'f')


def sort(a):
    a = asarray(a)
    return ndarray(sorted(a._d), a.shape, a.dtype)


def argsort(a, kind=None, **kw):
    """Indices that sort a 1-D array (stable; symbolic comparisons fork)."""
    a = asarray(a)
    if a.ndim != 1:
        raise ShimGap('argsort on %d-d' % a.ndim)
    idx = sorted(range(len(a._d)), key=functools.cmp_to_key(lambda i, j: -1 if a._d[i] < a._d[j] else (1 if a._d[j] < a._d[i] else 0)))
    return ndarray(idx, (len(idx),), int64)


def exp(a):
    from . import libstubs
    return libstubs.sym_exp(a)


def log(a):
    from . import libstubs
    return libstubs.sym_log(a)


def expm1(a):
    """exp(a) - 1 (the rounding advantage of expm1 does not exist in exact arithmetic)."""
    return exp(a) - 1


def log1p(a):
    return log(a + 1)


def sqrt(a):
    raise ShimGap('sqrt')


nan = float('nan')
inf = float('inf')
newaxis = None


class _Shim:
    """Module-like object bound to the name ``np`` in loaded repository modules."""

    def __init__(self):
        g = globals()
        self.ndarray = ndarray
        self.bool_ = bool_
        self.int64 = int64
        self.float64 = float64
        self.integer = integer
        self.floating = floating
        self.errstate = errstate
        for name in ('append', 'empty_like', 'zeros_like', 'full', 'where', 'ndenumerate', 'resize', 'searchsorted',
                     'flatnonzero', 'count_nonzero', 'ptp', 'argmax', 'argmin', 'clip', 'full_like', 'ones_like',
                     'array_equal', 'logical_and', 'logical_or', 'logical_not', 'hstack', 'flip'):
            setattr(self, name, g[name])
        for name in ('array', 'asarray', 'zeros', 'empty', 'ones', 'linspace', 'arange', 'diff',
                     'concatenate', 'cumsum', 'nonzero', 'argwhere', 'minimum', 'maximum',
                     'isfinite', 'isnan', 'isscalar', 'ceil', 'floor', 'absolute', 'dot',
                     'allclose', 'isclose', 'interp', 'sort', 'argsort', 'exp', 'log', 'expm1', 'log1p', 'mean',
                     'issubdtype', 'nan', 'inf'):
            setattr(self, name, g[name])
        self.abs = absolute
        self.all = all_
        self.any = any_
        self.sum = sum_
        self.min = amin
        self.max = amax
        self.amin = amin
        self.amax = amax

    def __getattr__(self, name):
        import numpy as _real
        if not hasattr(_real, name):
            # same failure as the installed numpy (e.g. np.alltrue, np.NaN in numpy 2)
            raise AttributeError("module 'numpy' has no attribute %r" % name)
        raise ShimGap('numpy.%s is not implemented by nplite' % name)


np = _Shim()
