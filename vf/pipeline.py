"""Run the spowtd workflow on either backend.

* ``real_*``: the unmodified repository code with real numpy/scipy/sqlite3 (used
  for counterexample and witness replay, and as the reference in vf.conform);
* ``sym_modules`` / ``sym_*``: the same sources loaded through vf.loader with
  numpy -> nplite, library kernels -> libstubs and sqlite3 -> symsql.
"""

import io
import os
import shutil
import sqlite3
import subprocess
import sys
import tempfile
from fractions import Fraction

from . import loader, libstubs, nplite, symsql, symx

_CACHE = {}


def sym_modules(mode='R'):
    """Instrumented copies of the workflow modules, wired to each other."""
    key = ('mods', mode)
    if key in _CACHE:
        return _CACHE[key]
    m = {}
    m['regrid'] = loader.load('spowtd.regrid', mode, bindings={'interp1d': libstubs.interp1d, 'brentq': libstubs.brentq})
    m['fit_offsets'] = loader.load('spowtd.fit_offsets', mode, bindings={'linalg_mod': libstubs.linalg},
                                   submodules={'spowtd.regrid': m['regrid']})
    m['classify'] = loader.load('spowtd.classify', mode)
    m['load'] = loader.load('spowtd.load', mode)
    m['zeta_grid'] = loader.load('spowtd.zeta_grid', mode)
    m['set_curvature'] = loader.load('spowtd.set_curvature', mode)
    sub = {'spowtd.fit_offsets': m['fit_offsets']}
    m['rise'] = loader.load('spowtd.rise', mode, submodules=sub)
    m['recession'] = loader.load('spowtd.recession', mode, submodules=sub)
    _CACHE[key] = m
    return m


def sym_load(texts, tz='UTC', mode='R'):
    """spowtd load on symsql from three CSV texts -> Connection."""
    m = sym_modules(mode)
    conn = symsql.Connection()
    m['load'].load_data(conn, io.StringIO(texts[0]), io.StringIO(texts[1]), io.StringIO(texts[2]), tz)
    return conn


def sym_workflow(texts, thr_rain, thr_jump, grid_step, curvature=None, reference=None, tz='UTC', mode='R',
                 steps=('load', 'classify', 'zeta', 'rise', 'recession')):
    m = sym_modules(mode)
    conn = sym_load(texts, tz, mode)
    if 'classify' in steps:
        m['classify'].classify_intervals(conn, thr_rain, thr_jump)
    if 'zeta' in steps:
        m['zeta_grid'].populate_zeta_grid(conn, grid_step)
        conn.commit()
    if curvature is not None:
        m['set_curvature'].set_curvature(conn, curvature)
        conn.commit()
    if 'rise' in steps:
        m['rise'].find_rise_offsets(conn, reference)
    if 'recession' in steps:
        m['recession'].find_recession_offsets(conn, reference)
    return conn


# ---- real backend -----------------------------------------------------------------
class RealRun:
    """A temporary directory with the three input files and a SQLite file, driven
    through the real ``spowtd.user_interface.main``."""

    def __init__(self, texts=None):
        self.dir = tempfile.mkdtemp(prefix='spowtd-verif-')
        self.db = os.path.join(self.dir, 'data.sqlite3')
        self.files = [os.path.join(self.dir, n) for n in ('precipitation.txt', 'evapotranspiration.txt', 'water_level.txt')]
        if texts is not None:
            self.write(texts)

    def write(self, texts):
        for p, t in zip(self.files, texts):
            with open(p, 'w') as f:
                f.write(t)

    def main(self, argv):
        """Call the real CLI entry point in-process; returns (exception or None)."""
        ui = loader.real_module('spowtd.user_interface')
        try:
            ui.main([str(a) for a in argv])
        except SystemExit as e:
            if e.code not in (0, None):
                return e
            return None
        except Exception as e:
            return e
        return None

    def load(self, tz='UTC'):
        return self.main(['load', self.db, '-p', self.files[0], '-e', self.files[1], '-z', self.files[2], '--timezone', tz])

    def classify(self, thr_rain, thr_jump):
        return self.main(['classify', self.db, '-s', repr(float(thr_rain)), '-j', repr(float(thr_jump))])

    def zeta_grid(self, step):
        return self.main(['set-zeta-grid', self.db, '-d', repr(float(step))])

    def set_curvature(self, c):
        return self.main(['set-curvature', self.db, repr(float(c))])

    def rise(self, ref=None):
        return self.main(['rise', self.db] + ([] if ref is None else ['-r', ref if isinstance(ref, str) else repr(float(ref))]))

    def recession(self, ref=None):
        return self.main(['recession', self.db] + ([] if ref is None else ['-r', ref if isinstance(ref, str) else repr(float(ref))]))

    def write_text(self, name, text):
        p = os.path.join(self.dir, name)
        with open(p, 'w') as f:
            f.write(text)
        return p

    def simulate(self, which, params_text, observations=False):
        pp = self.write_text('params.yml', params_text)
        out = os.path.join(self.dir, 'sim_%s.yml' % which)
        err = self.main(['simulate', which, self.db, pp, '-o', out] + (['--observations'] if observations else []))
        flush_open_files()
        text = open(out).read() if os.path.exists(out) else None
        return err, text

    def pestfiles(self, which, params_text, kind):
        pp = self.write_text('params.yml', params_text)
        out = os.path.join(self.dir, 'pest_%s.%s' % (which, kind))
        err = self.main(['pestfiles', which, self.db, pp, kind, '-o', out])
        flush_open_files()
        text = open(out).read() if os.path.exists(out) else None
        return err, text

    def query(self, sql, params=()):
        con = sqlite3.connect(self.db)
        try:
            return con.execute(sql, params).fetchall()
        finally:
            con.close()

    def dump(self):
        con = sqlite3.connect(self.db)
        try:
            out = {}
            names = [r[0] for r in con.execute("SELECT name FROM sqlite_master WHERE type='table' ORDER BY name")]
            for n in names:
                cols = [r[1] for r in con.execute('PRAGMA table_info(%s)' % n)]
                out[n] = sorted(con.execute('SELECT %s FROM %s' % (', '.join(cols), n)).fetchall(),
                                key=lambda r: tuple((0, '') if v is None else (1, v) if not isinstance(v, str) else (2, v) for v in r))
            return out
        finally:
            con.close()

    def close(self):
        shutil.rmtree(self.dir, ignore_errors=True)

    def __enter__(self):
        return self

    def __exit__(self, *a):
        self.close()


def flush_open_files():
    """argparse.FileType leaves output files open; flush them so that they can be read."""
    import gc
    for o in gc.get_objects():
        try:
            if isinstance(o, io.TextIOWrapper) and not o.closed and o.writable() and o.name not in ('<stdout>', '<stderr>') \
                    and isinstance(o.name, str) and 'spowtd-verif-' in o.name:
                o.flush()
        except Exception:
            pass


def sym_dump(conn):
    out = {}
    for n, t in conn.db.tables.items():
        out[n] = [tuple(r[c] for c in t.colnames) for r in t.rows]
    return out


def compare_dumps(real, sym, rtol=1e-9, atol=1e-9):
    """Differences between a real-sqlite dump and a symsql dump (concrete data)."""
    diffs = []
    for n in sorted(set(real) | set(sym)):
        a = real.get(n)
        b = sym.get(n)
        if a is None or b is None:
            diffs.append('%s: only in %s' % (n, 'real' if b is None else 'symsql'))
            continue

        def norm(v):
            if isinstance(v, Fraction):
                return float(v)
            if isinstance(v, bool):
                return int(v)
            return v
        b = sorted(([norm(v) for v in r] for r in b),
                   key=lambda r: tuple((0, '') if v is None else (1, v) if not isinstance(v, str) else (2, v) for v in r))
        a = [list(r) for r in a]
        if len(a) != len(b):
            diffs.append('%s: %d rows (real) vs %d rows (symsql)' % (n, len(a), len(b)))
            continue
        for ra, rb in zip(a, b):
            for x, y in zip(ra, rb):
                if isinstance(x, (int, float)) and isinstance(y, (int, float)) and not isinstance(x, bool):
                    if abs(x - y) > atol + rtol * max(abs(x), abs(y)):
                        diffs.append('%s: %r vs %r' % (n, ra, rb))
                        break
                elif x != y:
                    diffs.append('%s: %r vs %r' % (n, ra, rb))
                    break
    return diffs
