"""conform -- differential checks that keep the shims honest.

``workflow()`` runs the real load -> classify -> set-zeta-grid -> set-curvature ->
rise -> recession sequence twice on small concrete datasets: once as the
unmodified repository code on real sqlite3/numpy/scipy (through the CLI entry
point), once as the instrumented sources on symsql/nplite/libstubs, and compares
the complete table dumps and the views.  ``stubs()`` compares individual library
contracts with the real libraries on boundary inputs.  Any mismatch is a harness
error (exit 3), never a verdict about the repository.
"""

from fractions import Fraction as F

from . import symx, pipeline, synth, symsql, nplite, libstubs

VIEWS = ['storm_total_rain_depth', 'average_rising_depth', 'average_recession_time',
         'storm_total_rise', 'rising_curve_line_segment']

CASES = [
    dict(name='planted-1h', rec=dict(), thr=(F(2), F(4)), grid=F(1), drop=()),
    dict(name='planted-30min-gap', rec=dict(step_s=1800, recessions=((1, 7), (0, 8), (3, 9), (2, 6))), thr=(F(2), F(4)),
         grid=F(1, 2), drop=(14, 15)),
    dict(name='planted-20min', rec=dict(step_s=1200, recessions=((0, 6), (2, 7), (1, 6)), sy=F(1, 4)), thr=(F(3), F(6)),
         grid=F(2), drop=()),
]


def _views_real(rr):
    out = {}
    for v in VIEWS:
        out[v] = sorted(rr.query('SELECT * FROM %s' % v))
    return out


def _views_sym(conn):
    out = {}
    for v in VIEWS:
        out[v] = [tuple(r) for r in conn.execute('SELECT * FROM %s' % v).fetchall()]
    return out


def workflow(cases=None):
    """Returns a list of mismatch descriptions (empty when conformant)."""
    problems = []
    notes = []
    n_stmt = 0
    for case in (cases or CASES):
        rec = synth.planted_record(**case['rec'])
        texts = synth.to_csv_texts(rec, drop_level_rows=case['drop'])
        with pipeline.RealRun(texts) as rr:
            errs = [rr.load(), rr.classify(*case['thr']), rr.zeta_grid(case['grid']), rr.set_curvature(F(3, 2)),
                    rr.rise(), rr.recession()]
            real_fail = next((type(e).__name__ for e in errs if e is not None), None)
            real = rr.dump() if real_fail is None else None
            vreal = _views_real(rr) if real_fail is None else None
        sym_fail = None
        try:
            with symx.single_path():
                conn = pipeline.sym_workflow(texts, case['thr'][0], case['thr'][1], case['grid'], curvature=F(3, 2))
                sym = pipeline.sym_dump(conn)
                vsym = _views_sym(conn)
                n_stmt += len(conn.db.log)
        except symx.ShimGap as e:
            problems.append('%s: instrumented workflow hit a shim gap: %s' % (case['name'], str(e)[:300]))
            continue
        except Exception as e:
            sym_fail = type(e).__name__
        if real_fail or sym_fail:
            # the repository code itself fails on this dataset (e.g. a seeded defect): the two
            # backends must at least fail alike; nothing further can be compared
            if real_fail != sym_fail:
                problems.append('%s: real workflow %s, instrumented workflow %s' % (
                    case['name'], 'raised ' + real_fail if real_fail else 'completed',
                    'raised ' + sym_fail if sym_fail else 'completed'))
            else:
                notes.append('%s: both backends raise %s' % (case['name'], real_fail))
            continue
        for d in pipeline.compare_dumps(real, sym)[:5]:
            problems.append('%s: table %s' % (case['name'], d))
        for d in pipeline.compare_dumps(vreal, vsym)[:5]:
            problems.append('%s: view %s' % (case['name'], d))
    return problems, n_stmt


def stubs():
    """Library contracts vs the real libraries on boundary inputs."""
    import numpy as np
    from scipy.interpolate import interp1d
    from scipy.optimize import brentq
    problems = []
    with symx.single_path():
        xs = [F(0), F(2), F(5)]
        ys = [F(1), F(-1), F(3)]
        st = libstubs.interp1d(nplite.array(xs), nplite.array(ys))
        rl = interp1d([float(v) for v in xs], [float(v) for v in ys])
        for q in [F(0), F(1), F(2), F(7, 2), F(5)]:
            if abs(float(st(q)) - float(rl(float(q)))) > 1e-12:
                problems.append('interp1d(%s): %r vs %r' % (q, st(q), rl(float(q))))
        for q in [F(-1), F(6)]:
            for fn, arg in ((st, q), (rl, float(q))):
                try:
                    fn(arg)
                    problems.append('interp1d outside the range did not raise (%s)' % q)
                except ValueError:
                    pass
        # brentq: root location and sign error
        r = libstubs.brentq(lambda v: st(v) - F(0), F(0), F(2))
        rr = brentq(lambda v: float(rl(v)), 0.0, 2.0)
        if abs(float(r) - rr) > 1e-9:
            problems.append('brentq root %r vs %r' % (r, rr))
        for fn in (lambda: libstubs.brentq(lambda v: st(v) + 5, F(0), F(2)), lambda: brentq(lambda v: float(rl(v)) + 5, 0.0, 2.0)):
            try:
                fn()
                problems.append('brentq with equal signs did not raise')
            except ValueError:
                pass
        # np.interp: value at a knot, clamping on both sides
        xp = [F(0), F(10), F(30)]
        fp = [F(5), F(7), F(-1)]
        for q in [F(-3), F(0), F(5), F(10), F(20), F(30), F(31)]:
            a = nplite.interp(q, xp, fp)
            b = np.interp(float(q), [float(v) for v in xp], [float(v) for v in fp])
            if abs(float(a) - float(b)) > 1e-12:
                problems.append('np.interp(%s): %r vs %r' % (q, a, b))
        # linalg.solve
        A = [[F(2), F(1)], [F(1), F(3)]]
        b = [F(3), F(5)]
        xa = libstubs.linalg.solve(nplite.array(A), nplite.array(b))
        xb = np.linalg.solve(np.array(A, dtype=float), np.array(b, dtype=float))
        if any(abs(float(u) - float(v)) > 1e-12 for u, v in zip(xa, xb)):
            problems.append('linalg.solve: %r vs %r' % (list(xa), xb))
        try:
            libstubs.linalg.solve(nplite.array([[F(1), F(2)], [F(2), F(4)]]), nplite.array([F(1), F(1)]))
            problems.append('linalg.solve singular did not raise')
        except libstubs.LinAlgError:
            pass
    return problems
