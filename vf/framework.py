"""Common scaffolding of the per-property checks: evidence, findings, exit codes.

Exit codes: 0 held on everything explored (KNOWN-FINDING lines possible);
1 reproduced violation not listed in known_findings.json (VIOLATION line);
3 harness error (shim gap, non-reproducing model, incomplete exploration, all
obligations of a harness inconclusive).
"""

import hashlib
import json
import os
import sys
import time
import traceback

from . import symx, loader

VERIF = os.path.dirname(os.path.dirname(os.path.abspath(__file__)))
# seeded-defect trials (tools/tryseed.sh) redirect both, so that the committed evidence only
# ever comes from runs against /repo itself
EVIDENCE_DIR = os.environ.get('VERIF_EVIDENCE_DIR') or os.path.join(VERIF, 'evidence')
REPLAY_DIR = os.environ.get('VERIF_REPLAY_DIR') or os.path.join(VERIF, 'replays')
KNOWN_FINDINGS = os.path.join(VERIF, 'known_findings.json')


def load_known_findings():
    if not os.path.exists(KNOWN_FINDINGS):
        return []
    with open(KNOWN_FINDINGS) as f:
        return json.load(f).get('findings', [])


def fingerprint(failure):
    """Identify a failure by *where and how* it fails, not by the concrete model."""
    trace = failure.get('trace') or []
    site = trace[-1] if trace else ''
    # drop the line number: keep file and function so that unrelated edits above
    # the site do not change the fingerprint
    parts = site.split(':')
    site = ':'.join([parts[0].replace('/repo/', ''), parts[-1]]) if len(parts) >= 3 else site
    det = failure.get('detail', '')
    exc_type = det.split(':', 1)[0] if failure.get('kind') == 'exception' else ''
    family = failure.get('harness', '').split('[')[0]
    return '|'.join([family, failure.get('kind', ''),
                     failure.get('label', ''), exc_type, site,
                     failure.get('class', '')])


class Check:
    """Base class: one instance per run of one property's check."""
    pid = None
    level = 'model_checking'
    title = ''

    def __init__(self, tier, seed):
        self.tier = tier
        self.seed = seed
        self.t0 = time.time()
        self.units = []            # (module, function)
        self.bounds = {}
        self.assumptions = []
        self.stubs = []
        self.outside = []
        self.explorations = []     # symx.Exploration summaries (dicts)
        self.failures = []         # candidate failures (dicts) to triage
        self.violations = []
        self.known = []
        self.harness_errors = []
        self.witness_replays = 0
        self.witness_mismatch = []
        self.samples = []
        self.extra = {}
        self.reach_witness = {}    # harness -> bool (a path reached the end of the harness)

    # -- to be provided by subclasses ---------------------------------------
    def run(self):
        raise NotImplementedError

    def replay(self, failure):
        """Re-run the failing input on the unmodified real code.
        Returns (reproduced: bool, info: dict)."""
        raise NotImplementedError

    # -- helpers ---------------------------------------------------------------
    def unit(self, module, *functions):
        for fn in functions:
            if (module, fn) not in self.units:
                self.units.append((module, fn))

    def absorb(self, exp, harness_name=None, need_paths=1):
        """Record an Exploration; collect its failures."""
        s = exp.summary()
        s['name'] = harness_name or s['name']
        self.explorations.append(s)
        if not exp.complete:
            died = [n for n in exp.notes if isinstance(n, dict) and n.get('t') == 'worker_died']
            self.harness_errors.append('%s: exploration incomplete (%s)' % (s['name'], died[0]['v'] if died else 'budget/wall limit'))
        if exp.stats.paths < need_paths:
            self.harness_errors.append('%s: only %d paths explored (vacuous harness?)' % (s['name'], exp.stats.paths))
        if exp.reached == 0 and not exp.failures:
            # reachability witness: some path must run through the whole harness, otherwise an
            # unsatisfiable assumption could make every obligation pass vacuously
            self.harness_errors.append('%s: no path reaches the end of the harness (vacuous assumptions?)' % s['name'])
        for f in exp.failures:
            f = dict(f)
            f['harness'] = s['name']
            if f['kind'] == 'harness':
                self.harness_errors.append('%s: %s: %s' % (s['name'], f['label'], f['detail']))
            elif f['kind'] == 'inconclusive':
                pass
            else:
                self.failures.append(f)
        if exp.stats.obligations and exp.stats.inconclusive == exp.stats.obligations:
            self.harness_errors.append('%s: every obligation inconclusive' % s['name'])
        for n in exp.notes:
            if isinstance(n, dict) and n.get('t') == 'witness':
                self.witness_replays += n.get('n', 1)
            elif isinstance(n, dict) and n.get('t') == 'witness_mismatch':
                self.witness_mismatch.append(n)
            elif isinstance(n, dict) and n.get('t') == 'sample':
                if len(self.samples) < 6:
                    self.samples.append(n.get('v'))
            elif isinstance(n, dict) and n.get('t') == 'reached':
                self.reach_witness[s['name']] = True
        return exp

    def run_conformance(self, workflow=True, stubs=True, patterns=None):
        """Differential checks of the shims against the real libraries (vf.conform)."""
        from . import conform
        rec = {}
        if stubs:
            p = conform.stubs()
            rec['stub_mismatches'] = p
            for x in p:
                self.harness_errors.append('stub does not conform to the real library: ' + x)
        if workflow:
            p, n = conform.workflow()
            rec['workflow_mismatches'] = p
            rec['sql_statements_compared'] = n
            for x in p:
                self.harness_errors.append('symsql/nplite workflow differs from sqlite3/numpy: ' + x)
        if patterns:
            from checks import dbstate
            p, n = dbstate.conform_patterns(patterns)
            rec['inv_load_patterns_compared_with_real_load'] = n
            rec['inv_load_mismatches'] = p
            for x in p:
                self.harness_errors.append('Inv_load constructor differs from the real load: ' + x)
        self.extra['conformance'] = rec
        return rec

    # -- finishing -----------------------------------------------------------------
    def triage(self):
        known = load_known_findings()
        groups = {}
        for f in self.failures:
            groups.setdefault(fingerprint(f), []).append(f)
        for fp, fs in sorted(groups.items()):
            f = fs[0]
            rep = None
            info = None
            # try a few models of the same failure class before giving up
            n_try = getattr(self, 'replay_candidates', 4)
            if len(fs) > n_try:
                # models from different paths, spread over the whole list (the first few paths often differ
                # only in their last decision)
                stride = len(fs) / float(n_try)
                cands = [fs[int(i * stride)] for i in range(n_try)]
            else:
                cands = fs
            for cand in cands:
                try:
                    rep, info = self.replay(cand)
                except Exception as e:  # replay machinery itself failed
                    rep, info = False, {'replay_error': '%s: %s' % (type(e).__name__, e),
                                        'tb': traceback.format_exc()[-800:]}
                if rep:
                    f = cand
                    break
            if not rep:
                self.harness_errors.append(
                    'counterexample did not reproduce on the real code (encoding or stub wrong?): %s :: %s :: %s'
                    % (fp, f.get('detail'), json.dumps(info, default=str)[:600]))
                continue
            entry = {'fingerprint': fp, 'count': len(fs), 'failure': f, 'replay': info}
            match = next((k for k in known if k.get('property') == self.pid
                          and k.get('status', 'open') == 'open'
                          and k.get('fingerprint') == fp), None)
            if match:
                entry['known'] = match
                self.known.append(entry)
            else:
                self.violations.append(entry)

    def write_replays(self):
        os.makedirs(REPLAY_DIR, exist_ok=True)
        for v in self.violations:
            h = hashlib.sha256(json.dumps(v['failure'], sort_keys=True, default=str).encode()).hexdigest()[:10]
            path = os.path.join(REPLAY_DIR, '%s-%s.json' % (self.pid, h))
            with open(path, 'w') as f:
                json.dump({'property': self.pid, 'fingerprint': v['fingerprint'],
                           'failure': v['failure'], 'observed': v['replay'],
                           'how': 'python run_check.py %s --replay %s' % (self.pid, path)},
                          f, indent=1, default=str)
            v['path'] = path

    def evidence(self):
        states = sum(e['paths'] for e in self.explorations)
        queries = sum(e['queries'] for e in self.explorations)
        mods = sorted({m for m, _ in self.units if not m.endswith('.sql')})
        functions = []
        for m, fn in self.units:
            if m.endswith('.sql'):
                path = os.path.join(loader.REPO, 'spowtd', 'schema.sql')
                with open(path, 'rb') as f:
                    dg = hashlib.sha256(f.read()).hexdigest()[:16]
                functions.append({'file': 'spowtd/schema.sql', 'object': fn, 'digest': dg})
                continue
            ln = loader.function_lines(m, fn)
            functions.append({'module': m, 'function': fn, 'lines': list(ln) if ln else None})
        cov = {
            'states': states,
            'transitions': queries,
            'traces_validated_against_impl': self.witness_replays,
            'samples': self.samples or [e['name'] for e in self.explorations][:3] or ['none'],
            'exhaustive': all(e.get('complete') for e in self.explorations) and not self.harness_errors,
            'functions_encoded': functions,
            'source_digest': loader.source_digest(mods) if mods else None,
            'bounds': self.bounds,
            'outside_claim': self.outside,
            'stubs': self.stubs,
            'harnesses': self.explorations,
            'queries': {
                'total': queries,
                'sat': sum(e['q_sat'] for e in self.explorations),
                'unsat': sum(e['q_unsat'] for e in self.explorations),
                'unknown': sum(e['q_unknown'] for e in self.explorations),
            },
            'obligations': sum(e['obligations'] for e in self.explorations),
            'discharged': sum(e['discharged'] for e in self.explorations),
            'inconclusive': sum(e['inconclusive'] for e in self.explorations),
            'solver_s': round(sum(e['solver_s'] for e in self.explorations), 2),
            'witness_mismatches': self.witness_mismatch[:5],
            'known_findings_hit': [k['fingerprint'] for k in self.known],
            'harness_errors': self.harness_errors[:10],
            'reachability_witness': self.reach_witness,
            'rule': 'a state is one completed symbolic path (an equivalence class of inputs with '
                    'the same control flow through the repository code); a transition is one '
                    'solver query discharged',
        }
        cov.update(self.extra)
        if self.level != 'model_checking':
            cov.setdefault('evaluations', max(1, states))
            cov.setdefault('distinct_nontrivial', max(0, states))
        return {
            'property_id': self.pid,
            'tier': self.tier,
            'seed': self.seed,
            'level': self.level,
            'coverage': cov,
            'assumptions': self.assumptions,
            'wall_s': round(time.time() - self.t0, 2),
            'violations': len(self.violations),
        }

    def finish(self):
        self.triage()
        self.write_replays()
        ev = self.evidence()
        os.makedirs(EVIDENCE_DIR, exist_ok=True)
        with open(os.path.join(EVIDENCE_DIR, '%s.json' % self.pid), 'w') as f:
            json.dump(ev, f, indent=1, default=str)
        for k in self.known:
            print('KNOWN-FINDING: property=%s %s' % (self.pid, k['known'].get('what', k['fingerprint'])))
        for v in self.violations:
            print('VIOLATION property=%s replay=%s' % (self.pid, v['path']))
            print('  %s :: %s' % (v['fingerprint'], v['failure'].get('detail')))
        if self.harness_errors:
            for e in self.harness_errors[:10]:
                print('HARNESS-ERROR %s: %s' % (self.pid, e), file=sys.stderr)
        tot_q = ev['coverage']['queries']['total']
        print('%s %s: %d paths, %d queries (%d unknown), %d/%d obligations discharged, %d witness replays, %.1fs solver, %.1fs wall'
              % (self.pid, self.tier, ev['coverage']['states'], tot_q, ev['coverage']['queries']['unknown'],
                 ev['coverage']['discharged'], ev['coverage']['obligations'], self.witness_replays,
                 ev['coverage']['solver_s'], ev['wall_s']))
        if self.violations:
            return 1
        if self.harness_errors:
            return 3
        return 0


def model_fractions(model):
    """Decode a failure/witness model into {name: Fraction|int|bool|float}."""
    return {k: symx.model_number(v) for k, v in (model or {}).items()}


def is_dyadic(q, max_den=1 << 30, max_abs=1 << 40):
    from fractions import Fraction
    if isinstance(q, (int, bool)):
        return abs(int(q)) <= max_abs
    if isinstance(q, float):
        return True
    if isinstance(q, Fraction):
        d = q.denominator
        return d & (d - 1) == 0 and d <= max_den and abs(q) <= max_abs
    return False


def run_tasks(fn, tasks, procs, on_lost=None, timeout_s=None):
    """Run fn(task) for every task in forked worker processes and yield the results as they arrive.
    Unlike multiprocessing.Pool, a worker that dies (a solver abort, the OOM killer) does not make the
    caller wait for ever: every task that has no result by then is reported through on_lost(task, reason)
    and the generator ends."""
    import concurrent.futures as cf
    import multiprocessing as mp
    tasks = list(tasks)
    if not tasks:
        return
    ex = cf.ProcessPoolExecutor(max_workers=max(1, min(procs, len(tasks))), mp_context=mp.get_context('fork'))
    futs = {ex.submit(fn, t): t for t in tasks}
    timeout_s = timeout_s or float(os.environ.get('VERIF_TASKS_TIMEOUT_S', '5400'))
    done = set()
    try:
        it = cf.as_completed(futs, timeout=timeout_s)
        while True:
            try:
                f = next(it)
            except StopIteration:
                break
            except cf.TimeoutError:
                # a worker that neither returns nor dies (e.g. z3 after an internal assertion failure)
                for g, t in futs.items():
                    if g not in done and on_lost is not None:
                        on_lost(t, 'no result after %d s (worker stuck?)' % timeout_s)
                for pr in list(getattr(ex, '_processes', {}).values()):
                    try:
                        pr.kill()
                    except Exception:
                        pass
                break
            done.add(f)
            try:
                yield f.result()
            except cf.process.BrokenProcessPool as e:
                if on_lost is not None:
                    on_lost(futs[f], 'a worker process ended abnormally (solver abort?): %s' % (str(e)[:120],))
            except (KeyboardInterrupt, SystemExit):
                raise
            except BaseException as e:
                if on_lost is not None:
                    on_lost(futs[f], '%s: %s' % (type(e).__name__, str(e)[:200]))
    finally:
        ex.shutdown(wait=False, cancel_futures=True)
