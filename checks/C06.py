"""C06 -- a known master curve is recovered from its shifted pieces.

Function level: crossing values t_ih = T(h) + c_i with a symbolic common curve T and
symbolic shifts c_i go through the real find_offsets: o_i + c_i must be the same for
every interval, and every aligned crossing must equal the master value.

Workflow level: the real command-line dispatch (user_interface.main: load, classify,
set-zeta-grid, rise, recession) runs with sqlite3 bound to symsql and the workflow
modules loaded from the current sources; the three input files hold a planted record
(recession curve piecewise linear on the sampling lattice) whose storm intensities are
tokens for  Sy x rise / duration  with a symbolic specific yield Sy.
"""

import io
import os
import shutil
import tempfile
from fractions import Fraction

import z3

from vf import symx, symsql, loader, nplite, libstubs, pipeline, synth
from vf.framework import Check, model_fractions
from checks import fit_common, C05


# ---- function level ---------------------------------------------------------------------------
def harness_fn(eng, ctx):
    nplite.set_float_mode('R')
    S, L = ctx['S'], ctx['L']
    fo = fit_common.load_fit()
    member = {(h, s): bool(eng.bool('m_%d_%d' % (h, s))) for h in range(L) for s in range(S)}
    levels = [{s for s in range(S) if member[(h, s)]} for h in range(L)]
    if any(not lv for lv in levels) or set().union(*levels) != set(range(S)) or not C05.connected(levels) \
            or not any(len(lv) > 1 for lv in levels):
        raise symx.PathAbort('not one connected body')
    T = [eng.real('T%d' % h) for h in range(L)]
    c = [eng.real('c%d' % s) for s in range(S)]
    mapping = {100 + h: [(s, T[h] + c[s]) for s in sorted(levels[h])] for h in range(L)}
    try:
        ids, offs = fo.find_offsets({k: list(v) for k, v in mapping.items()})
    except Exception as e:
        eng.fail_exception(e)
        return
    off = dict(zip([int(i) for i in ids], list(offs)))
    in_fit = sorted(off)
    ref = in_fit[0]
    for s in in_fit:
        eng.prove(off[s] + c[s] == off[ref] + c[ref], 'C06: the fitted offset undoes the shift of every piece (up to one constant)', detail='piece %d' % s)
    for h in range(L):
        vals = [off[s] + T[h] + c[s] for s in sorted(levels[h]) if s in off]
        for v in vals[1:]:
            eng.prove(v == vals[0], 'C06: aligned pieces coincide wherever they overlap', detail='level %d' % h)
        if vals:
            eng.prove(vals[0] - (off[ref] + c[ref]) == T[h], 'C06: the aligned crossings are the underlying curve up to the origin', detail='level %d' % h)
    eng.note({'t': 'reached'})


# ---- workflow level -----------------------------------------------------------------------------
class SymSqlite:
    """Stands for the module sqlite3 inside user_interface: one symsql database per file name."""

    def __init__(self):
        self.dbs = {}
        for n in ('Error', 'DatabaseError', 'IntegrityError', 'OperationalError', 'ProgrammingError'):
            setattr(self, n, getattr(symsql, n))

    def connect(self, path, *a, **kw):
        db = self.dbs.setdefault(path, symsql.Database())
        return symsql.Connection(db)


_UI = {}


def load_ui():
    if 'ui' not in _UI:
        m = pipeline.sym_modules('R')
        sub = {'spowtd.classify': m['classify'], 'spowtd.load': m['load'], 'spowtd.recession': m['recession'], 'spowtd.rise': m['rise'],
               'spowtd.zeta_grid': m['zeta_grid'], 'spowtd.set_curvature': m['set_curvature']}
        shim = SymSqlite()
        ui = loader.load('spowtd.user_interface', 'R', bindings={'sqlite3': shim}, submodules=sub)
        _UI['ui'] = (ui, shim)
    return _UI['ui']


SEQUENCES = {
    'three': ((1, 7), (0, 8), (3, 9)),
    'four': ((2, 5), (0, 6), (1, 7), (3, 5)),
}


def harness_cli(eng, ctx):
    nplite.set_float_mode('R')
    ui, shim = load_ui()
    shim.dbs.clear()
    eng.deterministic_pop = True
    sy = eng.real('specific_yield')
    eng.assume(sy > Fraction(1, 10))
    eng.assume(sy < 1)
    step_s = ctx['step_s']
    rec = synth.planted_record(step_s=step_s, recessions=SEQUENCES[ctx['sequence']], sy=Fraction(1))
    # storm intensities: token = Sy x (planted intensity for Sy = 1)
    symsql.TOKENS.clear()
    d = tempfile.mkdtemp(prefix='spowtd-c06-')
    try:
        p = ['Datetime,P']
        e = ['Datetime,ET']
        z = ['Datetime,WL']
        storm_steps = {ev['first_step'] + k for ev in rec['events'] if ev['kind'] == 'storm' for k in range(ev['steps'])}
        for i, t in enumerate(rec['epochs']):
            if i in storm_steps:
                tok = symsql.token('<rain:%d>' % i, sy * rec['rain'][i])
            else:
                tok = synth.fmt_num(rec['rain'][i])
            p.append('%s,%s' % (synth.fmt_time(t), tok))
            e.append('%s,%s' % (synth.fmt_time(t), synth.fmt_num(rec['et'][i])))
            z.append('%s,%s' % (synth.fmt_time(t), synth.fmt_num(rec['zeta'][i])))
        e.append('%s,%s' % (synth.fmt_time(rec['epochs'][-1] + step_s), synth.fmt_num(rec['et'][-1])))
        files = []
        for name, lines in (('p.txt', p), ('e.txt', e), ('z.txt', z)):
            fp = os.path.join(d, name)
            with open(fp, 'w') as f:
                f.write('\n'.join(lines) + '\n')
            files.append(fp)
        db = os.path.join(d, 'data.sqlite3')
        grid = ctx['grid']
        # thresholds: storm intensity is Sy x (>= 20 mm/h), so 1 mm/h separates it from the drizzle
        cmds = [['load', db, '-p', files[0], '-e', files[1], '-z', files[2], '--timezone', 'UTC'],
                ['classify', db, '-s', '1.0', '-j', '4.0'],
                ['set-zeta-grid', db, '-d', grid],
                ['rise', db], ['recession', db]]
        try:
            for argv in cmds:
                ui.main(argv)
        except SystemExit as ex:
            eng.fail_exception(RuntimeError('exit %r' % (ex.code,)), label='C06: command-line workflow exits with an error')
            return
        except Exception as ex:
            eng.fail_exception(ex, label='C06: command-line workflow fails on a planted record')
            return
        conn = symsql.Connection(shim.dbs[db])
        step = Fraction(grid)
        # rise curve: storage differs between levels by Sy x (level difference)
        rise = conn.execute('SELECT zeta_mm, mean_crossing_depth_mm FROM average_rising_depth ORDER BY zeta_mm').fetchall()
        if eng.prove(len(rise) >= ctx.get('min_levels', 3), 'C06: a rise curve is assembled (harness sanity)'):
            for (z0, w0), (z1, w1) in zip(rise, rise[1:]):
                eng.prove(w1 - w0 == sy * (z1 - z0), 'C06: assembled rise curve = planted storage curve (constant specific yield) up to the origin',
                          detail='levels %s, %s' % (z0, z1))
        pieces = conn.execute("""SELECT riz.zeta_number, ri.rain_depth_offset_mm + riz.mean_crossing_depth_mm
                                 FROM rising_interval AS ri JOIN rising_interval_zeta AS riz USING (start_epoch)""").fetchall()
        by = {}
        for zn, v in pieces:
            by.setdefault(zn, []).append(v)
        for zn, vs in by.items():
            for v in vs[1:]:
                eng.prove(v == vs[0], 'C06: aligned rise pieces coincide wherever they overlap', detail='level %s' % zn)
        # every aligned rise piece, as a line segment from its initial to its final level, lies on
        # the planted storage line W = Sy x level + const
        segs = conn.execute('SELECT interval_start_epoch, rain_depth_offset_mm, rain_total_depth_mm, initial_zeta_mm, final_zeta_mm '
                            'FROM rising_curve_line_segment').fetchall()
        base = None
        for (ep, off0, depth, zi, zf) in segs:
            eng.prove(depth == sy * (zf - zi), 'C06: each storm raises the level along the planted storage curve', detail='rise at %s' % ep)
            k = off0 - sy * zi
            if base is None:
                base = k
            else:
                eng.prove(k == base, 'C06: aligned rise segments lie on one storage curve', detail='rise at %s' % ep)
        # recession curve: elapsed time between levels as on the planted master curve
        recs = conn.execute('SELECT zeta_mm, elapsed_time_s FROM average_recession_time ORDER BY zeta_mm DESC').fetchall()
        if eng.prove(len(recs) >= ctx.get('min_levels', 3), 'C06: a recession curve is assembled (harness sanity)'):
            truth = master_times(rec, [r[0] for r in recs], step_s)
            for (z0, t0), (z1, t1), a, b in zip(recs, recs[1:], truth, truth[1:]):
                if a is None or b is None:
                    continue
                eng.prove(t1 - t0 == b - a, 'C06: assembled recession curve = planted recession curve up to the origin', detail='levels %s, %s' % (z0, z1))
        pieces = conn.execute("""SELECT riz.zeta_number, ri.time_offset_s + riz.mean_crossing_time
                                 FROM recession_interval AS ri JOIN recession_interval_zeta AS riz USING (start_epoch)""").fetchall()
        by = {}
        for zn, v in pieces:
            by.setdefault(zn, []).append(v)
        for zn, vs in by.items():
            for v in vs[1:]:
                eng.prove(v == vs[0], 'C06: aligned recession pieces coincide wherever they overlap', detail='level %s' % zn)
        eng.note({'t': 'reached'})
        eng.note({'t': 'sample', 'v': {'sequence': ctx['sequence'], 'step_s': step_s, 'grid': grid, 'rise_levels': len(rise), 'recession_levels': len(recs)}})
    finally:
        symsql.TOKENS.clear()
        shutil.rmtree(d, ignore_errors=True)


def master_times(rec, levels, step_s):
    """Elapsed time (s) at which the planted master curve passes each level (None if not unique)."""
    out = []
    pts = [(tau, synth.default_master(tau)) for tau in range(0, 40)]
    for lv in levels:
        hit = None
        for (t0, z0), (t1, z1) in zip(pts, pts[1:]):
            if z1 <= lv <= z0 and z0 != z1:
                hit = (t0 + (z0 - Fraction(lv)) / (z0 - z1)) * step_s
                break
        out.append(hit)
    return out


def replay_cli(ctx, sy):
    """The real CLI on the planted record with a concrete specific yield."""
    rec = synth.planted_record(step_s=ctx['step_s'], recessions=SEQUENCES[ctx['sequence']], sy=Fraction(sy))
    info = {'sequence': ctx['sequence'], 'step_s': ctx['step_s'], 'grid': ctx['grid'], 'specific_yield': float(sy)}
    with pipeline.RealRun(synth.to_csv_texts(rec)) as rr:
        errs = [rr.load(), rr.classify(1.0, 4.0), rr.zeta_grid(float(Fraction(ctx['grid']))), rr.rise(), rr.recession()]
        if any(e is not None for e in errs):
            info['error'] = [repr(e) for e in errs if e is not None][0]
            return False, info
        rise = rr.query('SELECT zeta_mm, mean_crossing_depth_mm FROM average_rising_depth ORDER BY zeta_mm')
        recs = rr.query('SELECT zeta_mm, elapsed_time_s FROM average_recession_time ORDER BY zeta_mm DESC')
        rp = rr.query('SELECT riz.zeta_number, ri.rain_depth_offset_mm + riz.mean_crossing_depth_mm FROM rising_interval AS ri JOIN rising_interval_zeta AS riz USING (start_epoch)')
        cp = rr.query('SELECT riz.zeta_number, ri.time_offset_s + riz.mean_crossing_time FROM recession_interval AS ri JOIN recession_interval_zeta AS riz USING (start_epoch)')
    probs = []
    with pipeline.RealRun(synth.to_csv_texts(rec)) as rr2:
        [rr2.load(), rr2.classify(1.0, 4.0), rr2.zeta_grid(float(Fraction(ctx['grid']))), rr2.rise()]
        segs = rr2.query('SELECT interval_start_epoch, rain_depth_offset_mm, rain_total_depth_mm, initial_zeta_mm, final_zeta_mm FROM rising_curve_line_segment')
    ks = [o - float(sy) * zi for (_, o, d_, zi, zf) in segs]
    if ks and max(ks) - min(ks) > 1e-7 * max(1.0, max(abs(k) for k in ks)):
        probs.append('aligned rise segments do not lie on one storage curve: intercepts %r' % ks)
    for (z0, w0), (z1, w1) in zip(rise, rise[1:]):
        if abs((w1 - w0) - float(sy) * (z1 - z0)) > 1e-7 * max(1.0, abs(w1 - w0)):
            probs.append('rise curve between %r and %r: %r, planted %r' % (z0, z1, w1 - w0, float(sy) * (z1 - z0)))
            break
    truth = master_times(rec, [r[0] for r in recs], ctx['step_s'])
    for (z0, t0), (z1, t1), a, b in zip(recs, recs[1:], truth, truth[1:]):
        if a is not None and b is not None and abs((t1 - t0) - float(b - a)) > 1e-6 * max(1.0, abs(float(b - a))):
            probs.append('recession curve between %r and %r: %r s, planted %r s' % (z0, z1, t1 - t0, float(b - a)))
            break
    for name, pcs in (('rise', rp), ('recession', cp)):
        by = {}
        for zn, v in pcs:
            by.setdefault(zn, []).append(v)
        for zn, vs in by.items():
            if max(vs) - min(vs) > 1e-6 * max(1.0, max(abs(x) for x in vs)):
                probs.append('%s pieces do not coincide at level %r: %r' % (name, zn, vs))
                break
    info['problems'] = probs[:4]
    info['levels'] = [len(rise), len(recs)]
    return not probs, info


class C06(Check):
    pid = 'C06'

    def run(self):
        quick = self.tier == 'quick'
        self.unit('spowtd.user_interface', 'main')
        self.unit('spowtd.load', 'load_data')
        self.unit('spowtd.classify', 'classify_intervals')
        self.unit('spowtd.zeta_grid', 'populate_zeta_grid')
        self.unit('spowtd.rise', 'compute_rise_offsets')
        self.unit('spowtd.recession', 'compute_offsets')
        self.unit('spowtd.fit_offsets', 'get_series_time_offsets', 'find_offsets', 'build_head_mapping')
        self.unit('spowtd.regrid', 'regrid')
        cfgs = [{'sequence': 'three', 'step_s': 3600, 'grid': '1.0'}, {'sequence': 'four', 'step_s': 1800, 'grid': '0.5'},
                # a coarse grid: some storms stay between two grid levels
                {'sequence': 'four', 'step_s': 3600, 'grid': '16.0', 'min_levels': 1}]
        if not quick:
            cfgs += [{'sequence': 'three', 'step_s': 1200, 'grid': '2.0'}, {'sequence': 'four', 'step_s': 3600, 'grid': '1.0'},
                     {'sequence': 'three', 'step_s': 1800, 'grid': '0.5'}]
        sizes = [(3, 3)] if quick else [(3, 3), (4, 3), (3, 4)]
        self.bounds = {'function level (pieces x levels, every connected overlap pattern)': sizes, 'workflow configurations': cfgs,
                       'specific yield': 'symbolic in (0.1, 1)', 'recession truth': 'piecewise linear on the sampling lattice (synth.default_master)'}
        self.assumptions = ['R-mode', 'the level record is exact on the lattice; storm intensities are Sy x planted value (tokens resolved by the staging tables)',
                            'set.pop order fixed in the workflow harness (C02 covers order independence)']
        self.stubs = ['sqlite3 inside user_interface -> vf.symsql (one database per file name)', 'numpy -> vf.nplite; interp1d / brentq / linalg.solve contracts',
                      'argparse, csv, datetime, pytz: real']
        self.outside = ['curved (non-lattice) truths, for which linear regridding is only approximate', 'records longer than the planted ones']
        self.run_conformance(patterns=None)
        for (S, L) in sizes:
            exp = symx.explore(harness_fn, {'S': S, 'L': L}, name='find_offsets_planted[%dx%d]' % (S, L))
            self.absorb(exp, need_paths=2)
        for c in cfgs:
            exp = symx.explore(harness_cli, c, name='cli[%s,%d,%s]' % (c['sequence'], c['step_s'], c['grid']), workers=1,
                               engine_kw={'query_timeout_ms': 60000})
            self.absorb(exp, need_paths=1)
            ok, info = replay_cli(c, Fraction(1, 2))
            self.witness_replays += 1
            if not ok:
                self.witness_mismatch.append(info)
                self.harness_errors.append('witness replay: the real CLI does not recover the planted curves: %r' % (info,))

    def replay(self, failure):
        h = failure['harness']
        m = model_fractions(failure.get('model'))
        info = {'expected': failure.get('detail'), 'label': failure.get('label')}
        if h.startswith('cli'):
            seq, st, grid = h.split('[')[1].rstrip(']').split(',')
            sy = m.get('specific_yield', Fraction(1, 2))
            ok, inf = replay_cli({'sequence': seq, 'step_s': int(st), 'grid': grid}, Fraction(sy))
            inf.update(info)
            if failure.get('kind') == 'exception':
                return 'error' in inf, inf
            return not ok, inf
        # function level: real find_offsets on the model
        import numpy as np
        S, L = [int(x) for x in h.split('[')[1].rstrip(']').split('x')]
        real = loader.real_module('spowtd.fit_offsets')
        mapping = {}
        for hh in range(L):
            ent = [(s, float(m.get('T%d' % hh, 0)) + float(m.get('c%d' % s, 0))) for s in range(S) if m.get('m_%d_%d' % (hh, s))]
            if ent:
                mapping[100 + hh] = ent
        try:
            ids, offs = real.find_offsets({k: list(v) for k, v in mapping.items()})
        except Exception as e:
            info['observed'] = '%s: %s' % (type(e).__name__, e)
            return failure.get('kind') == 'exception', info
        off = dict(zip([int(i) for i in ids], [float(o) for o in offs]))
        vals = [off[s] + float(m.get('c%d' % s, 0)) for s in off]
        info['observed'] = {'offset_plus_shift': vals}
        return (max(vals) - min(vals)) > 1e-7 * max(1.0, max(abs(v) for v in vals)), info
