"""C03 -- storms and rises are exactly the maximal above-threshold runs."""

from vf import symx
from vf.framework import Check
from checks import classify_fn


class C03(Check):
    pid = 'C03'

    def run(self):
        N = 7 if self.tier == 'quick' else 9
        self.bounds = {'samples_per_gap_free_record': N, 'rain': '>= 0 (real)', 'head': 'any real',
                       'thresholds': '> 0 (real); equality with a threshold is its own path'}
        self.unit('spowtd.classify', *classify_fn.UNITS)
        self.assumptions = ['R-mode: real-number reading of "rate > threshold" <=> "increment > threshold x step"',
                            'function level: match_storms on one gap-free record']
        self.stubs = ['numpy -> vf.nplite']
        self.outside = ['records longer than N samples']
        for n in range(2, N + 1):
            exp = symx.explore(classify_fn.harness,
                               {'N': n, 'props': ('C03',), 'seed': self.seed, 'replay_every': 5},
                               name='match_storms[N=%d]' % n)
            self.absorb(exp, need_paths=2)
        for f in self.failures:
            f['N'] = int(f['harness'].split('=')[1].rstrip(']'))

    def replay(self, failure):
        return classify_fn.replay_failure(failure['N'], failure)
