"""C03 -- storms and rises are exactly the maximal above-threshold runs."""

from vf import symx
from vf.framework import Check
from checks import classify_fn, classify_db


class C03(Check):
    pid = 'C03'

    def run(self):
        N = 7 if self.tier == 'quick' else 9
        self.bounds = {'samples_per_gap_free_record': N, 'rain': '>= 0 (real)', 'head': 'any real',
                       'thresholds': '> 0 (real); equality with a threshold is its own path'}
        self.unit('spowtd.classify', *classify_fn.UNITS)
        self.assumptions = ['R-mode: real-number reading of "rate > threshold" <=> "increment > threshold x step"',
                            'function level: match_storms on one gap-free record']
        self.stubs = ['numpy -> vf.nplite']
        self.outside = ['records longer than N samples']
        for n in range(2, N + 1):
            exp = symx.explore(classify_fn.harness,
                               {'N': n, 'props': ('C03',), 'seed': self.seed, 'replay_every': 5},
                               name='match_storms[N=%d]' % n)
            self.absorb(exp, need_paths=2)
        self.run_conformance(patterns=3)
        G = 4 if self.tier == 'quick' else 5
        self.bounds['DB level'] = {'grid steps': G, 'validity patterns': 'all', 'time step': '1800 s'}
        self.unit('spowtd.classify', *classify_db.UNITS)
        self.unit('spowtd.schema.sql', 'view storm_total_rain_depth')
        self.stubs.append('sqlite3 -> vf.symsql')
        self.assumptions.append('DB level starts from an arbitrary state satisfying Inv_load')
        exp = symx.explore(classify_db.harness, {'G': G, 'step_s': 1800, 'props': ('C03',), 'seed': self.seed, 'replay_every': 13},
                           name='classify_intervals[G=%d]' % G)
        self.absorb(exp, need_paths=2)
        # A gap of the level record that swallows no grid instant (logger faster than the grid, a few
        # readings missing): the label changes between two neighbouring instants that both carry a level.
        # "Neither extends across a gap" must hold there too (seeded change C03-4).
        breaks = [1, 2] if self.tier == "quick" else list(range(1, G - 1))
        self.bounds['DB level']['stretch boundaries without a NULL instant'] = 'one, after instant %s' % breaks
        for b in breaks:
            exp = symx.explore(classify_db.harness, {'G': G, 'step_s': 1800, 'props': ('C03',), 'seed': self.seed,
                                                     'replay_every': 13, 'brk': (b,)},
                               name='classify_intervals_break%d[G=%d]' % (b, G))
            self.absorb(exp, need_paths=2)

    def replay(self, failure):
        if failure['harness'].startswith('classify_intervals_break'):
            b = int(failure['harness'].split('[')[0][len('classify_intervals_break'):])
            G = int(failure['harness'].split('=')[1].rstrip(']'))
            return classify_db.replay_failure({'G': G, 'step_s': 1800, 'brk': (b,)}, failure)
        if failure['harness'].startswith('classify_intervals'):
            G = int(failure['harness'].split('=')[1].rstrip(']'))
            return classify_db.replay_failure({'G': G, 'step_s': 1800}, failure)
        N = int(failure['harness'].split('=')[1].rstrip(']'))
        return classify_fn.replay_failure(N, failure)
