"""C19 -- calibration files and simulation output describe the same problem.

The real pestfiles generators and the real simulate commands run on a symsql dataset
whose interval offsets are symbolic, so that every measured master-curve value is a
term; formatting a term leaves a token (term, format spec) in the generated text, which
the oracle reads back.  The width of the instruction window is decided by a small
integer model of the length of a printed double, solved by z3; the model found is
turned into a concrete double and replayed through the real yaml.dump.
"""

import io
import re
from fractions import Fraction

import z3

from vf import symx, symsql, loader, nplite, libstubs, pipeline, synth
from vf.framework import Check, model_fractions
from checks import sim_common


def make_params(kind, n_sy, n_T):
    if kind == 'peatclsm':
        return sim_common.PEATCLSM_PARAMS
    zs = [70.0 + 60.0 * i / (n_sy - 1) for i in range(n_sy)]
    sy = [0.2 + 0.05 * i for i in range(n_sy)]
    zt = [60.0 + 80.0 * i / (n_T - 1) for i in range(n_T)]
    K = [0.5 * 3 ** i for i in range(n_T)]
    lines = ['specific_yield:', '  type: spline', '  zeta_knots_mm:'] + ['    - %r' % z for z in zs] + ['  sy_knots:'] + ['    - %r' % v for v in sy]
    lines += ['transmissivity:', '  type: spline', '  zeta_knots_mm:'] + ['    - %r' % z for z in zt] + ['  K_knots_km_d:'] + ['    - %r' % v for v in K]
    lines += ['  minimum_transmissivity_m2_d: 4.0']
    return '\n'.join(lines) + '\n'


def parse_pst(text):
    lines = text.replace('\r\n', '\n').split('\n')
    sections = {}
    cur = None
    for ln in lines:
        if ln.startswith('* '):
            cur = ln[2:].strip()
            sections[cur] = []
        elif cur is not None:
            sections[cur].append(ln)
    return lines, sections


def symbolic_db(eng):
    conn, rec = sim_common.base_db()
    for k, row in enumerate(conn.db.tables['rising_interval'].rows):
        row['rain_depth_offset_mm'] = eng.real('rise_offset%d' % k)
    for k, row in enumerate(conn.db.tables['recession_interval'].rows):
        row['time_offset_s'] = eng.real('recession_offset%d' % k)
    return conn, rec


def harness(eng, ctx):
    nplite.set_float_mode('R')
    mods, ys = sim_common.sim_modules()
    pf = mods['pestfiles']
    which = ctx['which']            # 'rise' | 'curves'
    kind = ctx['kind']
    params = make_params(kind, ctx.get('n_sy', 4), ctx.get('n_T', 3))
    conn, rec = symbolic_db(eng)
    eng.__dict__['fmt_tokens'] = {}
    gen = pf.generate_rise_pestfiles if which == 'rise' else pf.generate_curves_pestfiles
    texts = {}
    try:
        # an earlier call in the same process with another (public) precision must not leak
        # into the files generated afterwards
        gen(conn, io.StringIO(params), 'pst', None, io.StringIO(), precision=6)
        eng.__dict__['fmt_tokens'] = {}
        for ft in ('tpl', 'ins', 'pst'):
            out = io.StringIO()
            gen(conn, io.StringIO(params), ft, None, out)
            texts[ft] = out.getvalue()
    except Exception as e:
        eng.fail_exception(e, label='C19: generating the PEST files fails')
        return
    toks = eng.fmt_tokens
    # -- control file: declared counts = lines present
    lines, sec = parse_pst(texts['pst'])
    ctrl = sec.get('control data', [])
    nums = ctrl[1].split() if len(ctrl) > 1 else []
    if not eng.prove(len(nums) == 5, 'C19: control data line has NPAR NOBS NPARGP NPRIOR NOBSGP'):
        return
    npar, nobs, npargp, nprior, nobsgp = (int(x) for x in nums)
    pdata = [l for l in sec.get('parameter data', []) if l.strip()]
    pgroups = [l for l in sec.get('parameter groups', []) if l.strip()]
    odata = [l for l in sec.get('observation data', []) if l.strip()]
    ogroups = [l for l in sec.get('observation groups', []) if l.strip()]
    eng.prove(npar == len(pdata), 'C19: declared parameter count = parameter lines', detail='%d vs %d' % (npar, len(pdata)))
    eng.prove(nobs == len(odata), 'C19: declared observation count = observation lines', detail='%d vs %d' % (nobs, len(odata)))
    eng.prove(npargp == len(pgroups), 'C19: declared parameter-group count = group lines', detail='%d vs %d' % (npargp, len(pgroups)))
    eng.prove(nobsgp == len(ogroups), 'C19: declared observation-group count = group lines')
    eng.prove(nprior == 0, 'C19: no prior information declared')
    # -- parameter names = template placeholders (PEST names are case-insensitive)
    tpl = texts['tpl']
    eng.prove(tpl.startswith('ptf @'), 'C19: template header')
    holders = [h.strip().lower() for h in re.findall(r'@([^@\n]*)@', tpl.split('\n', 1)[1])]
    names = [l.split()[0].lower() for l in pdata]
    eng.prove(sorted(holders) == sorted(names), 'C19: control-file parameter names are exactly the template placeholders',
              detail='template %r control %r' % (sorted(holders), sorted(names)))
    group_names = {l.split()[0].lower() for l in pgroups}
    eng.prove(all(l.split()[6].lower() in group_names for l in pdata), 'C19: every parameter belongs to a declared group')
    # -- filling the template with the original values gives back the parameters
    import yaml
    orig = yaml.safe_load(params)
    flat = {}
    if kind == 'spline':
        for i, v in enumerate(orig['specific_yield']['sy_knots']):
            flat['sy_knot_%d' % (i + 1)] = v
        for i, v in enumerate(orig['transmissivity']['K_knots_km_d']):
            flat['k_knot_%d' % (i + 1)] = v
        flat['t_min'] = orig['transmissivity']['minimum_transmissivity_m2_d']
    else:
        for k in ('sd', 'theta_s', 'b', 'psi_s'):
            flat[k] = orig['specific_yield'][k]
        for k in ('Ksmacz0', 'alpha'):
            flat[k.lower()] = orig['transmissivity'][k]
    body = tpl.split('\n', 1)[1]
    filled = re.sub(r'@([^@\n]*)@', lambda mo: repr(flat[mo.group(1).strip().lower()]), body)
    try:
        back = yaml.safe_load(filled)
    except Exception as e:
        back = None
    eng.prove(back == orig, 'C19: the filled template is equivalent to the original parameter file',
              detail='%r vs %r' % (back, orig))
    # -- observations: k-th value is the k-th master-curve value, named e1..eN, 17 significant digits
    rise = conn.execute('SELECT zeta_mm, mean_crossing_depth_mm FROM average_rising_depth ORDER BY zeta_mm').fetchall()
    want = [(r[1], 'storageobs', r[0]) for r in rise]
    if which == 'curves':
        recs = conn.execute('SELECT zeta_mm, elapsed_time_s FROM average_recession_time ORDER BY zeta_mm DESC').fetchall()
        want += [(r[1] / 86400, 'timeobs', r[0]) for r in recs]
    if eng.prove(len(odata) == len(want), 'C19: one observation per level of the measured curve(s)', detail='%d vs %d' % (len(odata), len(want))):
        for k, (ln, (val, grp, lvl)) in enumerate(zip(odata, want)):
            f = ln.split()
            eng.prove(f[0] == 'e%d' % (k + 1), 'C19: observations are named e1..eN in order', detail=ln)
            eng.prove(f[3] == grp, 'C19: observation group', detail=ln)
            tok = toks.get(f[1])
            if not eng.prove(tok is not None, 'C19: observation value is a formatted number', detail=ln):
                continue
            eng.prove(tok[0] == val, 'C19: k-th observation is the k-th measured master-curve value', detail='observation %d (level %s mm)' % (k + 1, lvl))
            mo = re.fullmatch(r'0?\.(\d+)([gGeE])', tok[1])
            eng.prove(mo is not None and int(mo.group(1)) >= 17, 'C19: observation written with at least 17 significant digits (reads back as the identical double)',
                      detail='format spec %r' % tok[1])
    # -- instruction file against the simulator output
    ins = [l for l in texts['ins'].replace('\r\n', '\n').split('\n') if l.strip()]
    eng.prove(ins[0] == 'pif @', 'C19: instruction header')
    sim_lines = simulated_output_lines(eng, mods, ys, conn, params, which)
    if sim_lines is None:
        return
    # walk the instructions over the output lines as PEST does
    pos = 0
    read = []
    okwalk = True
    for instr in ins[1:]:
        if instr.startswith('@'):
            marker = instr.strip('@')
            while pos < len(sim_lines) and marker not in sim_lines[pos][0]:
                pos += 1
            if pos >= len(sim_lines):
                okwalk = False
                break
            pos += 1
            continue
        mo = re.fullmatch(r'l1 \[(\w+)\](\d+):(\d+)', instr)
        if not mo or pos >= len(sim_lines):
            okwalk = False
            break
        read.append((mo.group(1), int(mo.group(2)), int(mo.group(3)), sim_lines[pos]))
        pos += 1
    eng.prove(okwalk, 'C19: every instruction finds its line in the simulator output',
              detail='%d instructions, %d output lines' % (len(ins) - 1, len(sim_lines)))
    eng.prove(len(read) == len(odata), 'C19: the instruction file extracts exactly one value per observation',
              detail='%d vs %d' % (len(read), len(odata)))
    if len(read) == len(want):
        for k, ((name, c0, c1, (text, level, group)), (val, grp, lvl)) in enumerate(zip(read, want)):
            eng.prove(name == 'e%d' % (k + 1), 'C19: instruction k reads observation e_k', detail=name)
            eng.prove(level == lvl and group == grp, 'C19: k-th extracted value is simulated at the level of the k-th observation',
                      detail='instruction %d reads the value at %s mm (%s), observation is at %s mm (%s)' % (k + 1, level, group, lvl, grp))
            eng.prove(c0 == 3, 'C19: extraction window starts at the number (after "- ")')
    eng.extra_window = [(c0, c1) for _, c0, c1, _ in read[:1]]
    eng.note({'t': 'reached'})
    eng.note({'t': 'sample', 'v': {'which': which, 'kind': kind, 'observations': len(odata), 'parameters': npar,
                                   'window': read[0][1:3] if read else None}})


def opaque_curve(eng, prefix, n, increasing):
    """Simulated values as opaque symbols.  Only two neighbouring values are left free
    relative to each other (a simulated curve need not be monotone in level); the others
    are ordered, so that code which sorts by value forks a few times, not n! times."""
    vals = [eng.real('%s%d' % (prefix, i)) for i in range(n)]
    j = n // 2
    for i in range(n - 1):
        if i == j:
            continue
        a, b = (vals[i], vals[i + 1]) if increasing else (vals[i + 1], vals[i])
        eng.assume(a < b)
    if 0 < j and j + 2 < n:
        lo, hi = (vals[j - 1], vals[j + 2]) if increasing else (vals[j + 2], vals[j - 1])
        for v in (vals[j], vals[j + 1]):
            eng.assume(lo < v)
            eng.assume(v < hi)
    return vals


def simulated_output_lines(eng, mods, ys, conn, params, which):
    """What `simulate rise --observations` (and `simulate recession --observations`) write,
    as (text line, level, group) triples in file order."""
    out = []
    del ys.dumped[:]
    buf = io.StringIO()

    class _NoCurves:
        # the curves themselves are C17/C18's business: here only which values are written, in
        # which order, matters -- the simulated numbers are opaque symbols
        @staticmethod
        def create_specific_yield_function(p):
            return None
    srise = mods['simulate_rise']
    saved = (srise.specific_yield_mod, srise.compute_rise_curve)
    srise.specific_yield_mod = _NoCurves
    srise.compute_rise_curve = lambda specific_yield, zeta_grid_mm, mean_storage_mm=0: nplite.array(
        opaque_curve(eng, 'simrise', len(zeta_grid_mm), increasing=True))
    try:
        srise.simulate_rise(conn, io.StringIO(params), buf, True)
    except Exception as e:
        eng.fail_exception(e, label='C19: simulate rise fails')
        return None
    finally:
        srise.specific_yield_mod, srise.compute_rise_curve = saved
    head = buf.getvalue().split('\n')[0]
    vec = ys.dumped[0]
    levels = [r[0] for r in conn.execute('SELECT zeta_mm FROM average_rising_depth ORDER BY zeta_mm').fetchall()]
    out.append((head, None, None))
    if not eng.prove(len(vec) == len(levels), 'C19: simulate rise writes one value per rise level'):
        return None
    out += [('- <value>', lv, 'storageobs') for lv in levels]
    if which == 'curves':
        del ys.dumped[:]
        buf = io.StringIO()
        sr = mods['simulate_recession']
        original = sr.compute_recession_curve
        n_holder = {}

        def fake(**kw):
            n = len(kw['zeta_grid_mm'])
            n_holder['grid'] = list(kw['zeta_grid_mm'])
            return nplite.array(opaque_curve(eng, 'simrec', n, increasing=False))
        sr.compute_recession_curve = fake
        saved_sy = sr.specific_yield_mod
        sr.specific_yield_mod = _NoCurves
        try:
            sr.dump_simulated_recession(conn, io.StringIO(params), buf, True)
        except Exception as e:
            eng.fail_exception(e, label='C19: simulate recession fails')
            return None
        finally:
            sr.compute_recession_curve = original
            sr.specific_yield_mod = saved_sy
        head = buf.getvalue().split('\n')[0]
        vec = ys.dumped[0]
        grid = n_holder.get('grid', [])
        out.append((head, None, None))
        # which level each written value belongs to: identify the symbolic value
        for v in vec:
            lvl = None
            for i, g in enumerate(grid):
                if isinstance(v, symx.Sym) and v.z.eq(eng.inputs['simrec%d' % i].z):
                    lvl = g
            out.append(('- <value>', lvl, 'timeobs'))
    return out


# ---- width of the instruction window ---------------------------------------------------------
def yaml_float_length_model(window_chars):
    """Is there a finite double whose YAML rendering is longer than the window?

    Shortest round-trip repr of a double: sign s, n significant digits (1..17), decimal
    exponent e (value = d.ddd x 10**e).  Python switches to exponent notation for e < -4 or
    e >= 16; PyYAML inserts '.0' into an exponent form without a point.  Returns a z3 model
    (s, n, e, length) or None.
    """
    s, n, e, L = z3.Ints('sign digits exp10 length')
    solver = z3.Solver()
    solver.add(s >= 0, s <= 1, n >= 1, n <= 17, e >= -324, e <= 308)
    expo_len = z3.If(z3.Or(e <= -100, e >= 100), 3, 2)
    sci = z3.If(n == 1, 3, n + 1) + 2 + expo_len          # d.0e-05 / d.ddde-05
    # positional: digits, a point, leading/trailing zeros
    pos_small = 2 + (-e - 1) + n                           # 0.000ddd   (e < 0)
    pos_large = z3.If(n > e + 1, n + 1, e + 1 + 2)         # ddd.ddd or ddd000.0
    positional = z3.If(e < 0, pos_small, pos_large)
    body = z3.If(z3.Or(e < -4, e >= 16), sci, positional)
    solver.add(L == s + body)
    solver.add(L > window_chars)
    if solver.check() != z3.sat:
        return None
    m = solver.model()
    return {k: m[v].as_long() for k, v in (('sign', s), ('digits', n), ('exp10', e), ('length', L))}


def concrete_double_for(model):
    """A double realising (sign, digits, exponent) of the model, by searching nearby mantissas."""
    import itertools
    n, e, s = model['digits'], model['exp10'], model['sign']
    base = '1234567890123456789'[:n]
    for bump in range(0, 400):
        digits = str(int(base) + bump).rjust(n, '1')[:n]
        if digits.endswith('0') and n > 1:
            continue
        text = '%s%s.%se%d' % ('-' if s else '', digits[0], digits[1:] or '0', e)
        x = float(text)
        if x == 0.0 or x != x or x in (float('inf'), float('-inf')):
            continue
        r = repr(x)
        sig = re.sub(r'[-.]', '', r.split('e')[0]).lstrip('0')
        if len(sig.rstrip('0') or '0') == n or len(sig) == n:
            return x
    return None


def window_replay(x, window):
    """Real yaml.dump of [x]; read columns window[0]:window[1] of the value line as PEST does."""
    import yaml
    text = '# Rise curve simulation vector\n' + yaml.dump([x])
    line = text.split('\n')[1]
    field = line[window[0] - 1:window[1]]
    info = {'value': repr(x), 'output_line': line, 'columns %d:%d' % window: field}
    try:
        back = float(field)
    except ValueError:
        back = None
    info['read_back'] = back
    return back != x, info


class C19(Check):
    pid = 'C19'

    def run(self):
        quick = self.tier == 'quick'
        self.unit('spowtd.pestfiles', 'generate_rise_pestfiles', 'generate_curves_pestfiles', 'generate_rise_tpl_file', 'generate_rise_ins_file',
                  'generate_rise_pst_file', 'generate_curves_tpl_file', 'generate_curves_ins_file', 'generate_curves_pst_file', 'check_parameters')
        self.unit('spowtd.simulate_rise', 'simulate_rise')
        self.unit('spowtd.simulate_recession', 'dump_simulated_recession', 'simulate_recession')
        cfgs = [('rise', 'spline', 4, 3), ('curves', 'spline', 4, 3), ('rise', 'peatclsm', 0, 0), ('curves', 'peatclsm', 0, 0)]
        if not quick:
            cfgs += [('rise', 'spline', 6, 4), ('curves', 'spline', 5, 4), ('curves', 'spline', 6, 5)]
        self.bounds = {'dataset': 'planted dataset (3 rises, 3 recessions; about 30 levels each) with symbolic interval offsets: every measured value is a term',
                       'parameter files': ['%s %s (%d sy knots, %d K knots)' % c for c in cfgs],
                       'printed doubles': 'all (sign, 1-17 significant digits, decimal exponent -324..308) in the length model'}
        self.assumptions = ['PEST compares parameter names case-insensitively (K_knot_i in the template, k_knot_i in the control file is not an alarm)',
                            'a number formatted with >= 17 significant digits reads back as the identical double (IEEE round trip)',
                            'yaml.dump records the object; the text of a dumped float is modelled only in the length model and checked by replay with the real yaml']
        self.stubs = ['sqlite3 -> vf.symsql', 'str.format of a proxy -> token (term, spec)', 'yaml.dump -> records the object', 'FITPACK / quad contracts (simulate)']
        self.outside = ['PEST itself', 'configuration files (-c): accepted but unused by the generators']
        windows = set()
        for (which, kind, a, b) in cfgs:
            exp = symx.explore(harness, {'which': which, 'kind': kind, 'n_sy': a, 'n_T': b}, name='pestfiles[%s,%s,%d,%d]' % (which, kind, a, b), workers=1)
            self.absorb(exp, need_paths=1)
        # witness replays: the real CLI on the planted dataset, same oracle concretely
        for (which, kind, a, b) in cfgs[:2] + cfgs[2:4]:
            bad, info = replay_files({'harness': 'pestfiles[%s,%s,%d,%d]' % (which, kind, a, b), 'kind': 'obligation'})
            self.witness_replays += 1
            if bad:
                self.witness_mismatch.append(info)
                self.harness_errors.append('witness replay: real CLI disagrees with the symbolic verdict: %r' % (info,))
        # instruction window: read from the generated instruction file of the real code
        rr = sim_common.real_workflow_run()
        try:
            err, ins = rr.pestfiles('rise', sim_common.SPLINE_PARAMS_LOCAL, 'ins')
        finally:
            rr.close()
        mo = re.search(r'\](\d+):(\d+)', ins or '')
        if not mo:
            self.harness_errors.append('could not read the instruction window from the generated .ins file')
            return
        window = (int(mo.group(1)), int(mo.group(2)))
        width = window[1] - window[0] + 1
        model = yaml_float_length_model(width)
        self.extra['instruction_window'] = {'columns': window, 'width': width, 'longest_length_model': model}
        self.explorations.append({'name': 'window_length_model', 'paths': 1, 'aborted': 0, 'forks': 0, 'q_sat': 1 if model else 0, 'q_unsat': 0 if model else 1,
                                  'q_unknown': 0, 'solver_s': 0.0, 'obligations': 1, 'discharged': 0 if model else 1, 'failed': 1 if model else 0,
                                  'inconclusive': 0, 'max_depth': 0, 'ended': 0, 'structural': 0, 'queries': 1, 'complete': True, 'unknown_paths': 0,
                                  'wall_s': 0.0, 'statuses': {'ok': 1}})
        if model:
            x = concrete_double_for(model)
            self.failures.append({'kind': 'obligation', 'label': 'C19: the instruction window covers every number the simulator can print',
                                  'detail': 'a %d-character number exists, the window %d:%d holds %d' % (model['length'], window[0], window[1], width),
                                  'model': {'x': {'f': float(x).hex()} if x is not None else None, 'window0': window[0], 'window1': window[1]},
                                  'harness': 'window_length_model', 'trace': ['spowtd/pestfiles.py:0:generate_rise_ins_file']})

    def replay(self, failure):
        if failure['harness'] == 'window_length_model':
            m = failure.get('model') or {}
            x = symx.model_number(m.get('x')) if m.get('x') else None
            if x is None:
                return False, {'error': 'no concrete double found for the length model'}
            bad, info = window_replay(float(x), (int(m['window0']), int(m['window1'])))
            info['expected'] = failure.get('detail')
            return bad, info
        return replay_files(failure)


# a parameter set inside the PEST bounds whose cubic spline undershoots zero between knots, so
# that the simulated recession is not monotone in level
OSCILLATING_PARAMS = """specific_yield:
  type: spline
  zeta_knots_mm:
    - 70.0
    - 90.0
    - 105.0
    - 130.0
  sy_knots:
    - 0.9
    - 0.02
    - 0.9
    - 0.02
transmissivity:
  type: spline
  zeta_knots_mm:
    - 60.0
    - 95.0
    - 140.0
  K_knots_km_d:
    - 0.5
    - 2.0
    - 16.0
  minimum_transmissivity_m2_d: 4.0
"""


def recession_order_problems(params):
    """`simulate recession`: the table must list levels from highest to lowest and the
    --observations vector must be the table's simulated column."""
    import yaml
    rr = sim_common.real_workflow_run()
    try:
        e1, table = rr.simulate('recession', params, observations=False)
        e2, vec = rr.simulate('recession', params, observations=True)
        recs = rr.query('SELECT zeta_mm FROM average_recession_time ORDER BY zeta_mm DESC')
    finally:
        rr.close()
    if e1 is not None or e2 is not None:
        return ['simulate recession failed: %r %r' % (e1, e2)]
    body = yaml.safe_load(table)[1:]
    v = yaml.safe_load(vec)
    out = []
    if [r[0] for r in body] != [r[0] for r in recs]:
        out.append('simulate recession lists levels %r..., the control file orders observations by level descending %r...'
                   % ([r[0] for r in body][:4], [r[0] for r in recs][:4]))
    if [r[2] for r in body] != v:
        out.append('--observations vector is not the simulated column of the table')
    return out


_SEQ_SCRIPT = r'''
import io, sqlite3, sys
sys.path.insert(0, sys.argv[1])
import spowtd.pestfiles as pf
db, which, params = sys.argv[2], sys.argv[3], open(sys.argv[4]).read()
con = sqlite3.connect(db)
g = pf.generate_rise_pestfiles if which == 'rise' else pf.generate_curves_pestfiles
g(con, io.StringIO(params), 'pst', None, io.StringIO(), precision=6)
buf = io.StringIO()
g(con, io.StringIO(params), 'pst', None, buf)
want = [r[0] for r in con.execute('SELECT mean_crossing_depth_mm FROM average_rising_depth ORDER BY zeta_mm')]
if which == 'curves':
    want += [r[0] for r in con.execute('SELECT CAST(elapsed_time_s AS double precision) / (3600 * 24) FROM average_recession_time ORDER BY zeta_mm DESC')]
obs = []
on = False
for ln in buf.getvalue().splitlines():
    if ln.startswith('* '):
        on = ln.strip() == '* observation data'
        continue
    if on and ln.strip():
        obs.append(float(ln.split()[1]))
bad = sum(1 for a, b in zip(obs, want) if a != b)
print('BAD' if (len(obs) != len(want) or bad) else 'OK', bad, len(obs), len(want))
'''


def precision_sequence_problems(which, params):
    import subprocess
    import sys as _sys
    rr3 = sim_common.real_workflow_run(synth.planted_record(step_s=3600, recessions=((1, 7), (0, 8), (3, 9)), sy=Fraction(1, 3)))
    try:
        pp = rr3.write_text('seq_params.yml', params)
        sp = rr3.write_text('seq.py', _SEQ_SCRIPT)
        out = subprocess.run([_sys.executable, sp, loader.REPO, rr3.db, which, pp], capture_output=True, text=True, timeout=600)
    finally:
        rr3.close()
    if out.stdout.strip().startswith('BAD'):
        return ['after a call with precision=6 in the same process the default control file no longer holds the exact values (%s)' % out.stdout.strip()]
    if not out.stdout.strip().startswith('OK'):
        return ['precision sequence could not be run: %s' % (out.stderr.strip()[-200:],)]
    return []


def replay_files(failure):
    """Real CLI: generate the three files and the simulator output on the planted dataset and
    re-check counts, names, order and levels concretely."""
    import yaml
    h = failure['harness']
    which, kind, a, b = h.split('[')[1].rstrip(']').split(',')
    params = make_params(kind, int(a), int(b))
    info = {'expected': failure.get('detail'), 'label': failure.get('label'), 'command': 'spowtd pestfiles %s <params> tpl|ins|pst' % which}
    rr = sim_common.real_workflow_run()
    try:
        texts = {}
        for ft in ('tpl', 'ins', 'pst'):
            err, t = rr.pestfiles(which, params, ft)
            if err is not None:
                info['observed'] = repr(err)
                return failure.get('kind') == 'exception', info
            texts[ft] = t
        errs, sim_rise = rr.simulate('rise', params, observations=True)
        sim_rec = None
        if which == 'curves':
            errs2, sim_rec = rr.simulate('recession', params, observations=True)
        rise = rr.query('SELECT zeta_mm, mean_crossing_depth_mm FROM average_rising_depth ORDER BY zeta_mm')
        recs = rr.query('SELECT zeta_mm, elapsed_time_s FROM average_recession_time ORDER BY zeta_mm DESC')
    finally:
        rr.close()
    probs = []
    lines, sec = parse_pst(texts['pst'])
    nums = [int(x) for x in sec['control data'][1].split()]
    pdata = [l for l in sec['parameter data'] if l.strip()]
    odata = [l for l in sec['observation data'] if l.strip()]
    pgroups = [l for l in sec['parameter groups'] if l.strip()]
    ogroups = [l for l in sec['observation groups'] if l.strip()]
    if nums[0] != len(pdata) or nums[1] != len(odata) or nums[2] != len(pgroups) or nums[4] != len(ogroups):
        probs.append('declared counts %r vs lines %r' % (nums, [len(pdata), len(odata), len(pgroups), 0, len(ogroups)]))
    holders = sorted(x.strip().lower() for x in re.findall(r'@([^@\n]*)@', texts['tpl'].split('\n', 1)[1]))
    if holders != sorted(l.split()[0].lower() for l in pdata):
        probs.append('placeholders %r vs parameter names %r' % (holders, sorted(l.split()[0].lower() for l in pdata)))
    want = [r[1] for r in rise] + ([r[1] / 86400 for r in recs] if which == 'curves' else [])
    if len(odata) != len(want):
        probs.append('%d observation lines for %d curve levels' % (len(odata), len(want)))
    else:
        for k, (ln, v) in enumerate(zip(odata, want)):
            f = ln.split()
            if f[0] != 'e%d' % (k + 1) or float(f[1]) != v:
                probs.append('observation %d: %r, curve value %r' % (k + 1, ln, v))
                break
    if which == 'curves':
        # order of the simulated recession values: the table form names the level of every value
        probs += recession_order_problems(params)
        if kind == 'spline':
            probs += recession_order_problems(OSCILLATING_PARAMS)
    # a call with another precision earlier in the same process (library API); run in a fresh
    # interpreter so that nothing generated above has warmed any module-level state
    probs += precision_sequence_problems(which, params)
    ins = [l for l in texts['ins'].split('\n') if l.startswith('l1')]
    nsim = len(yaml.safe_load(sim_rise)) + (len(yaml.safe_load(sim_rec)) if sim_rec else 0)
    if len(ins) != nsim or len(ins) != len(odata):
        probs.append('%d instructions, %d simulated values, %d observations' % (len(ins), nsim, len(odata)))
    info['observed'] = probs[:5]
    return bool(probs), info
