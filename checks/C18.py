"""C18 -- the simulated recession curve obeys the water-balance equation."""

import io
from fractions import Fraction

import z3

from vf import symx, symsql, loader, nplite, libstubs, pipeline, synth
from vf.framework import Check, model_fractions
from checks import spline_common, sim_common


def harness_curve(eng, ctx):
    """compute_recession_curve with symbolic grid, ET, curvature; spline Sy and T."""
    nplite.set_float_mode('R')
    mods, ys = sim_common.sim_modules()
    import yaml
    p = libstubs._lift_floats(yaml.safe_load(sim_common.SPLINE_PARAMS_LOCAL))
    sy = mods['specific_yield'].create_specific_yield_function(dict(p['specific_yield']))
    T = mods['transmissivity'].create_transmissivity_function(dict(p['transmissivity']))
    n = ctx['n']
    z = [eng.real('z%d' % i) for i in range(n)]
    for a, b in zip(z, z[1:]):
        eng.assume(a < b)
    top = Fraction(140)          # highest transmissivity knot: the ceiling
    for v in z:
        eng.assume(v < top)
    et = eng.real('et_mm_d')
    kappa = eng.real('curvature_km')
    eng.assume(et >= 0)
    eng.assume(kappa >= 0)
    eng.assume(et + kappa > 0)
    mean = eng.real('mean')
    eng.__dict__['quad_log'] = []
    eng.quad_key = lambda f: 'rec' if getattr(f, '__name__', '') == 'f' else None
    eng.quad_nonneg = lambda key: key != 'rec'       # conductivity = exp(..) > 0 (proved in C15)
    try:
        t = mods['simulate_recession'].compute_recession_curve(sy, T, nplite.array(z), mean, kappa, et)
    except Exception as e:
        eng.fail_exception(e)
        return
    finally:
        eng.quad_key = None
    recs = [r for r in eng.quad_log if r.key == 'rec']
    eng.quad_nonneg = lambda key: key != 'rec'
    if not eng.prove(len(recs) == n - 1, 'C18: one integral per grid cell'):
        return
    S = libstubs._info(sy._spline._tck)['S']
    for i, r in enumerate(recs):
        eng.prove(r.a == z[i], 'C18: cell integral starts at the lower level')
        eng.prove(r.b == z[i + 1], 'C18: cell integral ends at the upper level')
        # integrand at the probe = Sy(xi) / (-ET - kappa * T(xi)), T from its own contract
        syv = sy(r.xi)
        eng.__dict__.setdefault('quad_log', [])
        n_before = len(eng.quad_log)
        Tv = T(r.xi)
        denom = -et - kappa * Tv
        eng.prove(denom != 0, 'C18: denominator of the integrand cannot vanish')
        eng.prove(r.value * denom == syv, 'C18: integrand is Sy / (-ET - curvature x T)', detail='cell %d' % i)
        eng.prove(denom < 0, 'C18: denominator negative, so time increases as the level falls when Sy > 0')
    eng.prove(len(t) == n, 'C18: one value per grid level')
    for i in range(n - 1):
        eng.prove(t[i + 1] - t[i] == recs[i].result, 'C18: elapsed time differs between adjacent levels by the cell integral')
    eng.prove(sum(t._d[1:], t._d[0]) == n * mean, 'C18: mean equals the requested mean')
    eng.note({'t': 'reached'})


def harness_et(eng, ctx):
    """simulate_recession: which ET it hands to compute_recession_curve, and the table it dumps."""
    nplite.set_float_mode('R')
    mods, ys = sim_common.sim_modules()
    conn, rec = sim_common.base_db(ctx.get('variant'))
    if ctx.get('variant') == 'dropped':
        n_inter = sum(1 for r in conn.db.tables['zeta_interval'].rows if r['interval_type'] == 'interstorm')
        if not n_inter > len(conn.db.tables['recession_interval'].rows) >= 2:
            raise symx.ShimGap('the "dropped" record must have an interstorm interval outside the master curve (%d interstorm, %d assembled)'
                               % (n_inter, len(conn.db.tables['recession_interval'].rows)))
    # every ET cell symbolic
    et = {}
    for row in conn.db.tables['evapotranspiration'].rows:
        v = eng.real('et@%d' % ((row['from_epoch'] - rec['origin']) // rec['step_s']))
        eng.assume(v >= 0)
        row['evapotranspiration_mm_h'] = v
        et[row['from_epoch']] = v
    sr = mods['simulate_recession']
    captured = {}
    original = sr.compute_recession_curve

    def spy(**kw):
        captured.update(kw)
        n = len(kw['zeta_grid_mm'])
        return nplite.array([eng.real('sim%d' % i) for i in range(n)])
    sr.compute_recession_curve = spy
    out = io.StringIO()
    del ys.dumped[:]
    sy_type, t_type = ctx.get('ptypes', ('spline', 'spline'))
    import yaml as _yaml
    pl = _yaml.safe_load(sim_common.SPLINE_PARAMS_LOCAL)
    pp = _yaml.safe_load(sim_common.PEATCLSM_PARAMS)
    mixed = {'specific_yield': (pl if sy_type == 'spline' else pp)['specific_yield'],
             'transmissivity': (pl if t_type == 'spline' else pp)['transmissivity']}
    params_text = _yaml.dump(mixed)
    saved_sy = sr.specific_yield_mod

    class _OpaqueSy:
        # the PEATCLSM specific-yield table is C16's business and costly to build: opaque here
        @staticmethod
        def create_specific_yield_function(p):
            return ('specific yield', p.get('type'))
    if sy_type == 'peatclsm':
        sr.specific_yield_mod = _OpaqueSy
    try:
        sr.dump_simulated_recession(conn, io.StringIO(params_text), out, ctx['observations'])
    except Exception as e:
        eng.fail_exception(e)
        return
    finally:
        sr.compute_recession_curve = original
        sr.specific_yield_mod = saved_sy
    # transmissivity handed over must be in m2/d: the PEATCLSM formula gives m2/s
    Tgot = captured.get('transmissivity_m2_d')
    tmod = mods['transmissivity']
    if t_type == 'spline':
        eng.prove(isinstance(Tgot, tmod.SplineTransmissivity), 'C18: spline transmissivity (m2/d) is used as it is',
                  detail='got %r' % (Tgot,))
    else:
        ref = tmod.PeatclsmTransmissivity(**{k: v for k, v in libstubs._lift_floats(pp['transmissivity']).items() if k != 'type'})
        zp = Fraction(90)
        try:
            def sc(v):
                return v._d[0] if isinstance(v, nplite.ndarray) else v
            eng.prove(sc(Tgot(zp)) == sc(ref(zp)) * 86400, 'C18: PEATCLSM transmissivity (m2/s) is converted to m2/d',
                      detail='specific yield %s, transmissivity %s' % (sy_type, t_type))
        except Exception as e:
            eng.fail_exception(e, label='C18: transmissivity handed to the curve cannot be evaluated')
    # ET: average over every time step inside the recession intervals of the master curve
    cells = []
    for ri in conn.db.tables['recession_interval'].rows:
        zi = next(r for r in conn.db.tables['zeta_interval'].rows if r['start_epoch'] == ri['start_epoch'] and r['interval_type'] == 'interstorm')
        cells += [v for t0, v in sorted(et.items()) if zi['start_epoch'] <= t0 < zi['thru_epoch']]
    want_et = sum(cells[1:], cells[0]) * 24 / len(cells)
    eng.prove(captured.get('et_mm_d') == want_et, 'C18: ET is the time-average over all time steps of the recession intervals',
              detail='%d steps in %d intervals' % (len(cells), len(conn.db.tables['recession_interval'].rows)))
    view = conn.execute('SELECT zeta_mm, elapsed_time_s FROM average_recession_time ORDER BY zeta_mm').fetchall()
    levels = [r[0] for r in view]
    n = len(levels)
    grid = list(captured.get('zeta_grid_mm', []))
    eng.prove(len(grid) == n and all(bool(a == b) for a, b in zip(grid, levels)), 'C18: simulated on the levels of the measured curve (mm, ascending)')
    curv = conn.db.tables['curvature'].rows[0]['curvature_m_km2']
    eng.prove(captured.get('curvature_km') == curv / 1000, 'C18: curvature converted to 1/km')
    meas_d = [r[1] / 86400 for r in view]
    eng.prove(captured.get('mean_elapsed_time_d') == sum(meas_d[1:], meas_d[0]) / n, 'C18: requested mean is the mean of the measured curve in days')
    doc = ys.dumped[0] if len(ys.dumped) == 1 else None
    if not eng.prove(doc is not None, 'C18: one YAML document is written'):
        return
    sim = [eng.inputs['sim%d' % i] for i in range(n)]
    if ctx['observations']:
        eng.prove(out.getvalue().startswith('# Recession curve simulation vector\n'), 'C18: observation vector header')
        eng.prove(len(doc) == n and all(bool(doc[k] == sim[n - 1 - k]) for k in range(min(n, len(doc)))),
                  'C18: observation vector runs from the highest to the lowest level')
    else:
        eng.prove(doc[0] == ['Water level, mm', 'Measured elapsed time, d', 'Simulated elapsed time, d'], 'C18: table header')
        body = doc[1:]
        if eng.prove(len(body) == n, 'C18: one row per level'):
            for k in range(n):
                j = n - 1 - k
                eng.prove(body[k][0] == levels[j], 'C18: rows list the levels in mm from highest to lowest', detail='row %d holds %r, level is %r mm' % (k, body[k][0], levels[j]))
                eng.prove(body[k][1] == meas_d[j], 'C18: measured column is the master curve in days')
                eng.prove(body[k][2] == sim[j], 'C18: simulated column is the simulated curve of the same level')
    eng.note({'t': 'reached'})
    eng.note({'t': 'sample', 'v': {'levels': n, 'recession_steps_averaged': len(cells), 'observations_only': ctx['observations']}})


def replay_et(observations, et_cycle=None, variant=None):
    """Real `spowtd simulate recession` on the planted record with a diurnal ET cycle; the ET
    used is recovered from the zero-curvature identity  ET * dt = -dW  is not needed: the real
    function is wrapped to record the value it receives."""
    import yaml
    import numpy as np
    real = loader.real_module('spowtd.simulate_recession')
    info = {'command': 'spowtd simulate recession' + (' --observations' if observations else '')}
    rec = sim_common.planted(variant)
    rr = sim_common.real_workflow_run(rec)
    seen = {}
    orig = real.compute_recession_curve

    def spy(**kw):
        seen.update(kw)
        return orig(**kw)
    real.compute_recession_curve = spy
    try:
        err, text = rr.simulate('recession', sim_common.SPLINE_PARAMS_LOCAL, observations=observations)
        if err is not None:
            info['error'] = repr(err)
            return False, info
        steps = rr.query("""SELECT e.evapotranspiration_mm_h FROM evapotranspiration AS e JOIN zeta_interval AS zi
                            ON e.from_epoch >= zi.start_epoch AND e.from_epoch < zi.thru_epoch
                            JOIN recession_interval AS ri ON ri.start_epoch = zi.start_epoch""")
        view = rr.query('SELECT zeta_mm, elapsed_time_s FROM average_recession_time ORDER BY zeta_mm')
    finally:
        real.compute_recession_curve = orig
        rr.close()
    want = float(np.mean([s[0] for s in steps])) * 24
    probs = []
    info['et_used_mm_d'] = seen.get('et_mm_d')
    info['et_average_over_interval_steps_mm_d'] = want
    if abs(seen.get('et_mm_d', -1) - want) > 1e-9 * max(1.0, want):
        probs.append('ET used %r mm/d, average over the %d steps of the recession intervals is %r mm/d' % (seen.get('et_mm_d'), len(steps), want))
    doc = yaml.safe_load(text)
    levels = [r[0] for r in view]
    if observations:
        if len(doc) != len(levels):
            probs.append('%d values for %d levels' % (len(doc), len(levels)))
    else:
        body = doc[1:]
        got = [r[0] for r in body]
        if got != list(reversed(levels)):
            probs.append('level column %r ... is not the curve levels in mm from highest to lowest (%r ...)' % (got[:3], list(reversed(levels))[:3]))
        if any(abs(b[1] - v[1] / 86400) > 1e-9 * max(1.0, abs(v[1] / 86400)) for b, v in zip(body, reversed(view))):
            probs.append('measured column differs from the master curve in days')
    info['problems'] = probs
    return not probs, info


class C18(Check):
    pid = 'C18'

    def run(self):
        quick = self.tier == 'quick'
        self.unit('spowtd.simulate_recession', 'compute_recession_curve', 'simulate_recession', 'dump_simulated_recession')
        self.unit('spowtd.transmissivity', 'SplineTransmissivity.call_scalar', 'create_transmissivity_function')
        self.unit('spowtd.specific_yield', 'SpecificYield.__call__', 'create_specific_yield_function')
        self.unit('spowtd.schema.sql', 'view average_recession_time')
        n = 3 if quick else 4
        self.bounds = {'grid levels': n, 'grid': 'symbolic increasing reals below the transmissivity ceiling', 'ET, curvature': 'symbolic >= 0, not both 0',
                       'command': 'planted dataset (3 recession intervals, 24 interval steps; and a record with a fourth interstorm interval that is not assembled into the master curve), every ET cell symbolic, both output forms'}
        self.assumptions = ['quad is the exact integral (uninterpreted, integrand probed at one symbolic point per cell)', 'FITPACK contract as in C14',
                            'reversal / refinement invariance and the zero-curvature identity ET*dt = -dW follow from the proved per-cell structure by '
                            'additivity / linearity of integrals (analysis), not re-proved here',
                            'specific yield > 0 is an admissibility condition of the parameters (sign of dt proved from the sign of the denominator)',
                            'conductivity is positive everywhere (C15), hence its integral over an increasing range is non-negative']
        self.stubs = spline_common.STUBS + ['scipy.integrate.quad -> uninterpreted integral', 'yaml.dump -> records the object', 'sqlite3 -> vf.symsql']
        self.outside = ['QUADPACK accuracy', 'PEATCLSM transmissivity in the command (unit hack m2/s -> m2/d is exercised only by witness replay in the thorough tier)']
        exp = symx.explore(harness_curve, {'n': n}, name='compute_recession_curve[n=%d]' % n, engine_kw={'query_timeout_ms': 60000})
        self.absorb(exp, need_paths=4)
        for pt in (('spline', 'peatclsm'), ('peatclsm', 'spline'), ('peatclsm', 'peatclsm')):
            exp = symx.explore(harness_et, {'observations': False, 'ptypes': pt}, name='simulate_recession[sy=%s,T=%s]' % pt, workers=1)
            self.absorb(exp, need_paths=1)
        for obs, variant in ((False, None), (True, None), (False, 'dropped')):
            exp = symx.explore(harness_et, {'observations': obs, 'variant': variant},
                               name='simulate_recession[observations=%s%s]' % (obs, ',record=' + variant if variant else ''), workers=1)
            self.absorb(exp, need_paths=1)
            ok, info = replay_et(obs, variant=variant)
            self.witness_replays += 1
            if not ok:
                self.witness_mismatch.append(info)
                self.harness_errors.append('witness replay: real `simulate recession` disagrees with the symbolic verdict: %r' % (info,))

    def replay(self, failure):
        h = failure['harness']
        info = {'expected': failure.get('detail'), 'label': failure.get('label')}
        if h.startswith('simulate_recession[sy='):
            return replay_units(h, info)
        if h.startswith('simulate_recession'):
            ok, inf = replay_et('True' in h, variant='dropped' if 'record=dropped' in h else None)
            inf.update(info)
            if failure.get('kind') == 'exception':
                return 'error' in inf, inf
            lab = failure.get('label', '')
            probs = inf.get('problems', [])
            if 'ET is the time-average' in lab:
                return any('ET used' in p_ for p_ in probs), inf
            if 'levels in mm' in lab:
                return any('level column' in p_ for p_ in probs), inf
            return not ok, inf
        # function level: concrete evaluation of the real function against quadrature
        return replay_curve(failure, info)


def replay_units(h, info):
    """Real simulate_recession with a mixed parameter file: the transmissivity function it
    hands to compute_recession_curve must return m2/d."""
    import yaml
    sy_type, t_type = h.split('sy=')[1].split(',')[0], h.split('T=')[1].rstrip(']')
    pl = yaml.safe_load(sim_common.SPLINE_PARAMS_LOCAL)
    pp = yaml.safe_load(sim_common.PEATCLSM_PARAMS)
    mixed = {'specific_yield': (pl if sy_type == 'spline' else pp)['specific_yield'],
             'transmissivity': (pl if t_type == 'spline' else pp)['transmissivity']}
    real = loader.real_module('spowtd.simulate_recession')
    rtm = loader.real_module('spowtd.transmissivity')
    seen = {}
    orig = real.compute_recession_curve

    def spy(**kw):
        seen.update(kw)
        raise KeyboardInterrupt
    real.compute_recession_curve = spy
    rr = sim_common.real_workflow_run()
    try:
        try:
            rr.simulate('recession', yaml.dump(mixed))
        except KeyboardInterrupt:
            pass
    finally:
        real.compute_recession_curve = orig
        rr.close()
    T = seen.get('transmissivity_m2_d')
    if T is None:
        info['observed'] = 'compute_recession_curve not reached'
        return False, info
    z = 90.0
    got = float(T(z))
    ref = rtm.create_transmissivity_function(dict(mixed['transmissivity']))
    want = float(ref(z)) * (86400 if t_type == 'peatclsm' else 1)
    info['observed'] = {'T_handed_over(90 mm)': got, 'expected_m2_d': want}
    return abs(got - want) > 1e-9 * max(1.0, abs(want)), info


def replay_curve(failure, info):
    import numpy as np
    import yaml
    from scipy.integrate import quad
    m = model_fractions(failure.get('model'))
    n = int(failure['harness'].split('n=')[1].rstrip(']'))
    real = loader.real_module('spowtd.simulate_recession')
    rsy = loader.real_module('spowtd.specific_yield')
    rtm = loader.real_module('spowtd.transmissivity')
    p = yaml.safe_load(sim_common.SPLINE_PARAMS_LOCAL)
    sy = rsy.create_specific_yield_function(dict(p['specific_yield']))
    T = rtm.create_transmissivity_function(dict(p['transmissivity']))
    z = [float(m.get('z%d' % i, 80 + i)) for i in range(n)]
    et = float(m.get('et_mm_d', 1))
    kap = float(m.get('curvature_km', 0))
    mean = float(m.get('mean', 0))
    info.update(grid=z, et_mm_d=et, curvature_km=kap, mean=mean)
    try:
        t = real.compute_recession_curve(sy, T, np.array(z), mean, kap, et)
    except Exception as e:
        info['observed'] = '%s: %s' % (type(e).__name__, e)
        return failure.get('kind') == 'exception', info
    probs = []
    for i in range(n - 1):
        want = quad(lambda x: float(sy(x)) / (-et - kap * float(T(x))), z[i], z[i + 1], limit=200)[0]
        if abs((t[i + 1] - t[i]) - want) > 1e-6 * max(1.0, abs(want)):
            probs.append('cell %d: %r vs %r' % (i, t[i + 1] - t[i], want))
    if abs(np.mean(t) - mean) > 1e-9 * max(1.0, abs(mean)):
        probs.append('mean')
    info['observed'] = {'t': t.tolist(), 'problems': probs}
    return bool(probs) and failure.get('kind') != 'exception', info
