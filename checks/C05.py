"""C05 -- alignment offsets minimise the squared spread of crossing values."""

import itertools
from fractions import Fraction

import z3

from vf import symx, nplite
from vf.framework import Check, model_fractions
from vf import loader
from checks import fit_common


def connected(levels):
    """levels: list of sets of series.  Is the series/level overlap graph connected?"""
    series = set().union(*levels) if levels else set()
    if not series:
        return False
    comp = {s: s for s in series}

    def find(a):
        while comp[a] != a:
            a = comp[a]
        return a
    for lv in levels:
        lv = sorted(lv)
        for a in lv[1:]:
            comp[find(a)] = find(lv[0])
    return len({find(s) for s in series}) == 1


WARMUP_SHIFT = 3


def warmup_mapping(mapping):
    """The same incidence pattern with every interval id shifted (so that some level lists the same ids as a
    level of the alignment under test, in another position of the numbering) and concrete crossing values."""
    return {k: [(sid + WARMUP_SHIFT, Fraction(7 * i + (k % 5))) for i, (sid, _) in enumerate(v)] for k, v in mapping.items()}


def harness(eng, ctx):
    S, L = ctx['S'], ctx['L']
    fo = fit_common.load_fit()
    member = {(h, s): bool(eng.bool('m_%d_%d' % (h, s))) for h in range(L) for s in range(S)}
    levels = [{s for s in range(S) if member[(h, s)]} for h in range(L)]
    if any(not lv for lv in levels):
        raise symx.PathAbort('level without a series cannot occur in a head mapping')
    if set().union(*levels) != set(range(S)):
        raise symx.PathAbort('every series crosses at least one level')
    if not connected(levels):
        raise symx.PathAbort('caller passes one connected component')
    if not any(len(lv) > 1 for lv in levels):
        raise symx.PathAbort('single isolated series: covered by C08 totality harness')
    ids = ctx.get('ids') or list(range(S))
    t = {(h, s): eng.real('t_%d_%d' % (h, s)) for h in range(L) for s in range(S) if member[(h, s)]}
    # presentation order of the entries inside a level is arbitrary in the real caller
    mapping = {}
    for h in range(L):
        entries = [(ids[s], t[(h, s)]) for s in sorted(levels[h])]
        if ctx.get('shuffle') and len(entries) > 1 and eng.choose(2, 'rev'):
            entries.reverse()
        mapping[100 + h] = entries
    try:
        if ctx.get('warmup'):
            # another alignment done earlier in the same process: the same shape, intervals numbered differently
            fo.find_offsets(warmup_mapping(mapping))
        series_ids, offsets = fo.find_offsets(dict((k, list(v)) for k, v in mapping.items()))
    except Exception as e:
        eng.fail_exception(e)
        return
    series_ids = [int(x) for x in series_ids]
    offsets = list(offsets)
    multi = [h for h in range(L) if len(levels[h]) > 1]
    in_fit = sorted({ids[s] for h in multi for s in levels[h]})
    if not eng.prove(sorted(series_ids) == in_fit, 'C05: every series sharing a level gets an offset'):
        return
    if not eng.prove(len(offsets) == len(series_ids), 'C05: one offset per series'):
        return
    off = dict(zip(series_ids, offsets))
    back = {ids[s]: s for s in range(S)}

    def stationarity(o):
        out = []
        for sid in series_ids:
            s = back[sid]
            acc = 0
            for h in multi:
                if s not in levels[h]:
                    continue
                n = len(levels[h])
                mean = sum((o[ids[u]] + t[(h, u)] for u in sorted(levels[h])), Fraction(0)) / n
                acc = acc + (o[sid] + t[(h, s)] - mean)
            out.append(acc)
        return out
    for sid, r in zip(series_ids, stationarity(off)):
        eng.prove(r == 0, 'C05: residuals of every interval against the master curve sum to zero',
                  detail='series %d' % sid)
    # uniqueness up to a common shift: any other stationary offsets differ by a constant
    alt = {sid: symx.SymReal(z3.Real('alt_%d' % sid)) for sid in series_ids}
    hyp = z3.And(*[symx.zbool(r == 0) for r in stationarity(alt)])
    ref = series_ids[0]
    same = z3.And(*[symx.zbool((alt[sid] - alt[ref]) == (off[sid] - off[ref])) for sid in series_ids])
    eng.prove(z3.Implies(hyp, same), 'C05: the minimiser is unique up to a common shift')
    if ctx.get('nra') and len(series_ids) <= 3:
        # bonus: the sum of squares is not smaller anywhere else (small NRA query)
        def ss(o):
            tot = 0
            for h in multi:
                n = len(levels[h])
                vals = [o[ids[u]] + t[(h, u)] for u in sorted(levels[h])]
                mean = sum(vals, Fraction(0)) / n
                for v in vals:
                    tot = tot + (v - mean) * (v - mean)
            return tot
        eng.prove(ss(off) <= ss(alt), 'C05: sum of squares is minimal (NRA)')
    eng.note({'t': 'reached'})
    key = hash(tuple(sorted(member.items()))) ^ ctx.get('seed', 0)
    if key % ctx.get('replay_every', 7) == 0:
        w = eng.witness()
        if w is not None:
            ok, info = replay(S, L, ids, model_fractions(w), expect=off)
            eng.note({'t': 'witness', 'n': 1})
            if not ok:
                eng.note({'t': 'witness_mismatch', 'v': info})
            elif len(series_ids) == S and key % 5 == 0:
                eng.note({'t': 'sample', 'v': info})


def concrete_mapping(S, L, ids, m):
    mapping = {}
    for h in range(L):
        entries = [(ids[s], float(m.get('t_%d_%d' % (h, s), 0))) for s in range(S) if m.get('m_%d_%d' % (h, s))]
        if entries:
            mapping[100 + h] = entries
    return mapping


def residual_sums(mapping, series_ids, offsets):
    """Exact per-series residual sums for concrete (float) data and offsets."""
    off = {int(s): Fraction(float(o)) for s, o in zip(series_ids, offsets)}
    sums = {s: Fraction(0) for s in off}
    for h, entries in mapping.items():
        if len(entries) < 2:
            continue
        vals = {int(s): off[int(s)] + Fraction(float(t)) for s, t in entries}
        mean = sum(vals.values()) / len(vals)
        for s, v in vals.items():
            sums[s] += v - mean
    return sums


def replay(S, L, ids, m, expect=None):
    real = loader.real_module('spowtd.fit_offsets')
    mapping = concrete_mapping(S, L, ids, m)
    info = {'head_mapping': {k: v for k, v in mapping.items()}}
    try:
        sids, offs = real.find_offsets({k: list(v) for k, v in mapping.items()})
    except Exception as e:
        info['real_exception'] = '%s: %s' % (type(e).__name__, e)
        return False, info
    info['real'] = {'series_ids': [int(s) for s in sids], 'offsets': [float(o) for o in offs]}
    sums = residual_sums(mapping, sids, offs)
    scale = max([1.0] + [abs(float(t)) for v in mapping.values() for _, t in v])
    info['residual_sums'] = {k: float(v) for k, v in sums.items()}
    if any(abs(v) > 1e-9 * scale for v in sums.values()):
        return False, info
    return True, info


class C05(Check):
    pid = 'C05'

    def run(self):
        quick = self.tier == 'quick'
        sizes = [(2, 2), (3, 3)] if quick else [(2, 2), (3, 3), (4, 3), (3, 4), (4, 4)]
        self.sizes = sizes
        self.bounds = {'series x levels': sizes, 'membership': 'every incidence pattern whose overlap graph is connected',
                       'crossing values': 'any reals'}
        self.unit('spowtd.fit_offsets', 'find_offsets')
        self.assumptions = ['R-mode: exact reals (real numpy result compared at witness replays: residual sums < 1e-9 relative)',
                            'overlap graph connected (guaranteed by get_series_time_offsets, proved in C08)',
                            'zero residual sums are the stationarity condition of a convex quadratic, hence the global minimum']
        self.stubs = fit_common.STUBS[:2]
        self.outside = ['more than %d series / levels' % max(max(s) for s in sizes), 'datasets with more than 5000 equations (no size-dependent code path exists on the unchanged tree)']
        for (S, L) in sizes:
            exp = symx.explore(harness, {'S': S, 'L': L, 'seed': self.seed, 'replay_every': 5, 'shuffle': S <= 3,
                                         'nra': quick and S <= 2, 'ids': [3 * s + 1 for s in range(S)]},
                               name='find_offsets[%dx%d]' % (S, L))
            self.absorb(exp, need_paths=2)
        for (S, L) in [z for z in sizes if z[0] <= 3]:
            exp = symx.explore(harness, {'S': S, 'L': L, 'seed': self.seed, 'replay_every': 5, 'shuffle': False, 'warmup': True,
                                         'nra': False, 'ids': [3 * s + 1 for s in range(S)]},
                               name='find_offsets_after_another_alignment[%dx%d]' % (S, L))
            self.absorb(exp, need_paths=2)
        self.bounds['earlier call'] = 'the same patterns (up to 3 series) after an alignment of the same shape with shifted interval ids in the same process'
        # the tables written by `rise` and `recession` (with and without a reference level):
        # residual sums of the stored offsets and crossings, on the C13 patterned record
        from checks import C13
        self.unit('spowtd.rise', 'compute_rise_offsets')
        self.unit('spowtd.recession', 'compute_offsets')
        self.stubs += ['sqlite3 -> vf.symsql; interp1d / brentq contracts (table-level harness)']
        cfgs = []
        for which in ('rise', 'recession'):
            cfgs.append({'pattern': 'A', 'grid': '1', 'ongrid': 'all', 'which': which, 'reference': C13.pick_reference(which), 'props': ('C05',)})
            cfgs.append({'pattern': 'A', 'grid': '1', 'ongrid': 'alternate' if quick else 'none', 'which': which, 'props': ('C05',)})
        self.bounds['tables'] = [C13.config_name(c) for c in cfgs]
        for c in cfgs:
            exp = symx.explore(C13.harness, c, name='tables_' + C13.config_name(c), engine_kw={'query_timeout_ms': 60000})
            self.absorb(exp, need_paths=1)

    def replay(self, failure):
        if failure['harness'].startswith('tables_'):
            from checks import C13
            c = C13.config_from_name(failure['harness'])
            ok, info = C13.replay_real(c, model_fractions(failure.get('model')), c['which'])
            info['expected'] = failure.get('detail')
            if failure.get('kind') == 'exception':
                return 'error' in info, info
            return any('residuals' in p_ for p_ in info.get('problems', [])), info
        rep, info = self._replay_fn(failure, model_fractions(failure.get('model')))
        if rep or failure.get('kind') == 'exception':
            return rep, info
        # the obligations are linear identities in the crossing values: the solver's model fixes the incidence
        # pattern, its values may be of wildly different magnitude (a residual then hides below the float
        # tolerance); try well-scaled generic values on the same pattern
        m = model_fractions(failure.get('model'))
        for variant in range(3):
            g = dict(m)
            for k in list(g):
                if k.startswith('t_'):
                    h, s_ = (int(x) for x in k.split('_')[1:])
                    g[k] = Fraction((7 * h + 3 * s_ * s_ + 5 * variant * (h + 1) * (s_ + 2) + 1) % 23, 2) + h * s_
            rep, info2 = self._replay_fn(failure, g)
            if rep:
                info2['note'] = 'crossing values of the model replaced by well-scaled generic values on the same incidence pattern'
                return rep, info2
        return False, info

    def _replay_fn(self, failure, m):
        S, L = [int(x) for x in failure['harness'].split('[')[1].rstrip(']').split('x')]
        ids = [3 * s + 1 for s in range(S)]
        real = loader.real_module('spowtd.fit_offsets')
        mapping = concrete_mapping(S, L, ids, m)
        info = {'entry': 'spowtd.fit_offsets.find_offsets', 'head_mapping': mapping,
                'expected': failure.get('detail'), 'label': failure.get('label')}
        try:
            if failure['harness'].startswith('find_offsets_after_another_alignment'):
                # the two calls in a fresh interpreter: whatever this process did before must not matter
                info['earlier_call'] = 'find_offsets on the same pattern with ids shifted by %d, then the call under test, in a new interpreter' % WARMUP_SHIFT
                out = loader.fresh_python(
                    'from spowtd import fit_offsets as fo\n'
                    'conv = lambda m: {int(k): [(int(s), float(t)) for s, t in v] for k, v in m.items()}\n'
                    'try:\n'
                    '    fo.find_offsets(conv(PAYLOAD["first"]))\n'
                    '    sids, offs = fo.find_offsets(conv(PAYLOAD["second"]))\n'
                    '    print(json.dumps({"sids": [int(s) for s in sids], "offs": [float(o) for o in offs]}))\n'
                    'except Exception as e:\n'
                    '    print(json.dumps({"error": "%s: %s" % (type(e).__name__, e)}))\n',
                    {'first': {str(k): [(sid, float(t)) for sid, t in v] for k, v in warmup_mapping(mapping).items()},
                     'second': {str(k): [(sid, float(t)) for sid, t in v] for k, v in mapping.items()}})
                if 'fresh_interpreter_error' in out:
                    info['observed'] = out
                    return False, info
                if 'error' in out:
                    info['observed'] = out['error']
                    return (failure.get('kind') == 'exception' and failure['detail'].startswith(out['error'].split(':')[0])), info
                sids, offs = out['sids'], out['offs']
            else:
                sids, offs = real.find_offsets({k: list(v) for k, v in mapping.items()})
        except Exception as e:
            info['observed'] = '%s: %s' % (type(e).__name__, e)
            return (failure.get('kind') == 'exception' and failure['detail'].startswith(type(e).__name__)), info
        info['observed'] = {'series_ids': [int(s) for s in sids], 'offsets': [float(o) for o in offs]}
        if failure.get('kind') == 'exception':
            return False, info
        multi = sorted({int(s) for v in mapping.values() if len(v) > 1 for s, _ in v})
        if sorted(int(s) for s in sids) != multi or len(offs) != len(sids):
            info['problem'] = 'series set'
            return True, info
        sums = residual_sums(mapping, sids, offs)
        scale = max([1.0] + [abs(float(t)) for v in mapping.values() for _, t in v])
        info['residual_sums'] = {k: float(v) for k, v in sums.items()}
        return any(abs(v) > 1e-7 * scale for v in sums.values()), info
