"""DB-level symbolic harness for `spowtd classify` (shared by C01, C03, C04, C07).

Starts from an arbitrary symbolic database state satisfying Inv_load (see
checks.dbstate): G grid steps, any validity pattern (gaps, single-sample
stretches, a stretch made of the closing instant only), symbolic rain >= 0,
symbolic water levels, symbolic thresholds > 0; runs the real
classify.classify_intervals on symsql and reads the oracles off the tables.
"""

import zlib
from fractions import Fraction

import z3

from vf import symx, symsql, loader, nplite, pipeline
from vf.framework import model_fractions
from checks import dbstate, classify_fn

UNITS = ('classify_intervals', 'populate_zeta_interval', 'classify_interstorms', 'match_all_storms',
         'check_for_uniform_time_steps', 'get_mystery_jump_mask') + classify_fn.UNITS


def make_state(eng, ctx):
    G = ctx['G']
    step = ctx['step_s']
    origin = ctx.get('origin', 1577836800)
    epochs = [origin + i * step for i in range(G + 1)]
    max_gaps = ctx.get('max_gaps', 99)
    valid = [bool(eng.bool('valid%d' % i)) for i in range(G + 1)]
    if not any(valid[:G]):
        # no water-level value on the grid at all: classify refuses such a dataset with an
        # explicit ValueError('No valid data intervals found'); stated as outside C01
        raise symx.PathAbort('no water level on the grid')
    for b in ctx.get('brk', ()):
        # a gap between two neighbouring valid instants that swallows no grid instant
        if not (valid[b] and valid[b + 1]):
            raise symx.PathAbort('break between instants that are not both valid')
    gaps = sum(1 for i in range(1, G + 1) if valid[i - 1] and not valid[i])
    if gaps > max_gaps:
        raise symx.PathAbort('more gaps than the bound')
    rain = [eng.real('rain%d' % i) for i in range(G)]
    zeta = [eng.real('zeta%d' % i) for i in range(G + 1)]
    for r in rain:
        eng.assume(r >= 0)
    thr_rain = eng.real('thr_rain')
    thr_jump = eng.real('thr_jump')
    eng.assume(thr_rain > 0)
    eng.assume(thr_jump > 0)
    et = [Fraction(1, 8)] * G
    return epochs, valid, rain, et, zeta, thr_rain, thr_jump


def stretches(valid, G, brk=()):
    """[(first, last)] sample indices (with rain and level rows) of each stretch."""
    out = []
    i = 0
    while i <= G:
        if valid[i]:
            j = i
            while j + 1 <= G and valid[j + 1] and j not in brk:
                j += 1
            out.append((i, min(j, G - 1)) if i <= G - 1 else (i, i - 1))
            i = j + 1
        else:
            i += 1
    return out


def harness(eng, ctx):
    props = ctx['props']
    G = ctx['G']
    step = ctx['step_s']
    step_h = Fraction(step, 3600)
    cl = loader.load('spowtd.classify', 'R')
    epochs, valid, rain, et, zeta, thr_rain, thr_jump = make_state(eng, ctx)
    conn = symsql.Connection()
    dbstate.build(conn, epochs, valid, rain, et, zeta, step, brk=ctx.get('brk', ()))
    try:
        cl.classify_intervals(conn, thr_rain, thr_jump)
    except Exception as e:
        # nothing is recorded when classification aborts: a violation of whichever
        # property the harness is run for
        eng.fail_exception(e, label='%sdb: classification aborts' % props[0])
        return
    db = conn.db
    idx = {t: i for i, t in enumerate(epochs)}
    storms = [(idx[int(r['start_epoch'])], idx[int(r['thru_epoch'])]) for r in db.tables['storm'].rows]
    rises = [(idx[int(r['start_epoch'])], idx[int(r['thru_epoch'])]) for r in db.tables['zeta_interval'].rows
             if r['interval_type'] == 'storm']
    inters = [(idx[int(r['start_epoch'])], idx[int(r['thru_epoch'])]) for r in db.tables['zeta_interval'].rows
              if r['interval_type'] == 'interstorm']
    pairs = [(idx[int(r['interval_start_epoch'])], idx[int(r['storm_start_epoch'])]) for r in db.tables['zeta_interval_storm'].rows]
    stre = stretches(valid, G, ctx.get('brk', ()))

    def stretch_of(i):
        return next((k for k, (a, b) in enumerate(stre) if a <= i <= b), None)
    if 'C01' in props:
        eng.prove(len({s for _, s in pairs}) == len(pairs), 'C01db: no storm paired twice')
        eng.prove(len({r for r, _ in pairs}) == len(pairs), 'C01db: no rise paired twice')
        eng.prove(len(pairs) == len(storms) == len(rises), 'C01db: every recorded storm and rise is paired')
        sdict = dict(storms)
        rdict = dict(rises)
        for r, s in pairs:
            if not eng.prove(s in sdict and r in rdict, 'C01db: pair refers to recorded intervals'):
                continue
            # storm steps s .. thru-1 ; rise samples r .. thru (increments r .. thru-1)
            lo, hi = max(s, r), min(sdict[s] - 1, rdict[r] - 1)
            eng.prove(lo <= hi, 'C01db: pair shares a time step', detail='storm %r rise %r' % ((s, sdict[s]), (r, rdict[r])))
    if 'C03' in props:
        for (a, b) in storms:          # steps a .. b-1
            k = stretch_of(a)
            if not eng.prove(k is not None and b - 1 <= stre[k][1], 'C03db: storm inside one gap-free stretch',
                             detail='storm %r stretches %r' % ((a, b), stre)):
                continue
            for i in range(a, b):
                eng.prove(rain[i] > thr_rain, 'C03db: storm step above threshold')
            if a > stre[k][0]:
                eng.prove(rain[a - 1] <= thr_rain, 'C03db: storm maximal on the left')
            if b - 1 < stre[k][1]:
                eng.prove(rain[b] <= thr_rain, 'C03db: storm maximal on the right')
        for (a, b) in rises:           # samples a .. b
            k = stretch_of(a)
            if not eng.prove(k is not None and b <= stre[k][1], 'C03db: rise inside one gap-free stretch',
                             detail='rise %r stretches %r' % ((a, b), stre)):
                continue
            for i in range(a, b):
                eng.prove(zeta[i + 1] - zeta[i] > thr_jump * step_h, 'C03db: rise increment above threshold x step')
            if a > stre[k][0]:
                eng.prove(zeta[a] - zeta[a - 1] <= thr_jump * step_h, 'C03db: rise maximal on the left')
            if b < stre[k][1]:
                eng.prove(zeta[b + 1] - zeta[b] <= thr_jump * step_h, 'C03db: rise maximal on the right')
        # rain depth attributed to a storm
        view = {idx[int(r[0])]: r[1] for r in conn.execute('SELECT storm_start_epoch, total_depth_mm FROM storm_total_rain_depth').fetchall()}
        eng.prove(sorted(view) == sorted(a for a, _ in storms), 'C03db: one depth per storm')
        for (a, b) in storms:
            if a in view:
                want = sum((rain[i] * step_h for i in range(a, b)), Fraction(0))
                eng.prove(view[a] == want, 'C03db: storm depth = sum of intensity x step over its steps')
    if 'C04' in props:
        flags = {idx[int(r['start_epoch'])]: r for r in db.tables['grid_time_flags'].rows}
        want_rows = sorted(i for (a, b) in stre for i in range(a, b + 1))
        eng.prove(sorted(flags) == want_rows, 'C04db: one flag row per sample of every stretch')
        want_inter = []
        for (a, b) in stre:
            n = b - a + 1
            if n <= 0:
                continue
            israin = [rain[i] > 0 for i in range(a, b + 1)]
            isjump = [False] + [zeta[i + 1] - zeta[i] > thr_jump * step_h for i in range(a, b)]
            from checks.C04 import declarative_flags
            mystery, inter = declarative_flags(n, isjump, israin)
            conc = []
            for k in range(n):
                row = flags.get(a + k)
                if row is None:
                    continue
                eng.prove(symx.zbool(row['is_jump'] != 0) == symx.zbool(isjump[k]), 'C04db: rise flag', detail='sample %d' % (a + k))
                eng.prove(symx.zbool(row['is_mystery_jump'] != 0) == mystery[k], 'C04db: unexplained-rise flag', detail='sample %d' % (a + k))
                eng.prove(symx.zbool(row['is_interstorm'] != 0) == inter[k], 'C04db: interstorm flag', detail='sample %d' % (a + k))
                conc.append(bool(symx.wrap(z3.simplify(inter[k]))) if True else None)
            for (s, e) in classify_fn.runs_of(conc):
                if e - s >= 2:
                    want_inter.append((a + s, a + e - 1))
        eng.prove(sorted(inters) == sorted(want_inter), 'C04db: interstorm intervals are the maximal clean runs of >= 2 samples',
                  detail='recorded %r expected %r' % (sorted(inters), sorted(want_inter)))
    eng.note({'t': 'reached'})
    key = zlib.crc32(repr(eng.decisions).encode()) ^ ctx.get('seed', 0)
    if key % ctx.get('replay_every', 23) == 0:
        w = eng.witness()
        if w is not None:
            ok, info = replay_cli(ctx, model_fractions(w),
                                  expect={'storms': sorted(storms), 'rises': sorted(rises), 'inters': sorted(inters)})
            eng.note({'t': 'witness', 'n': 1})
            if not ok:
                eng.note({'t': 'witness_mismatch', 'v': info})
            elif key % 7 == 0:
                eng.note({'t': 'sample', 'v': info})


def concrete_state(ctx, m):
    G = ctx['G']
    step = ctx['step_s']
    origin = ctx.get('origin', 1577836800)
    epochs = [origin + i * step for i in range(G + 1)]
    valid = [bool(m.get('valid%d' % i, False)) for i in range(G + 1)]
    rain = [Fraction(m.get('rain%d' % i, 0)) for i in range(G)]
    zeta = [Fraction(m.get('zeta%d' % i, 0)) for i in range(G + 1)]
    et = [Fraction(1, 8)] * G
    return epochs, valid, rain, et, zeta, Fraction(m.get('thr_rain', 1)), Fraction(m.get('thr_jump', 1))


def replay_cli(ctx, m, expect=None):
    """`spowtd load` + `spowtd classify` of the real code on files generated from a model."""
    epochs, valid, rain, et, zeta, tr, tj = concrete_state(ctx, m)
    texts = dbstate.texts_for(epochs, valid, rain, et, zeta, ctx['step_s'], brk=ctx.get('brk', ()))
    info = {'valid': valid, 'rain_mm_h': [float(v) for v in rain], 'zeta_mm': [float(v) for v in zeta],
            'thresholds': [float(tr), float(tj)], 'step_s': ctx['step_s'],
            'commands': ['spowtd load', 'spowtd classify -s %r -j %r' % (float(tr), float(tj))]}
    with pipeline.RealRun(texts) as rr:
        err = rr.load()
        if err is not None:
            info['load_error'] = repr(err)
            return False, info
        err = rr.classify(tr, tj)
        if err is not None:
            info['classify_error'] = '%s: %s' % (type(err).__name__, str(err)[:200])
            info['trace'] = symx.site_of_exception(err)
            return False, info
        idx = {t: i for i, t in enumerate(epochs)}
        got = {
            'storms': sorted((idx[a], idx[b]) for a, b in rr.query('SELECT start_epoch, thru_epoch FROM storm')),
            'rises': sorted((idx[a], idx[b]) for a, b in rr.query("SELECT start_epoch, thru_epoch FROM zeta_interval WHERE interval_type='storm'")),
            'inters': sorted((idx[a], idx[b]) for a, b in rr.query("SELECT start_epoch, thru_epoch FROM zeta_interval WHERE interval_type='interstorm'")),
        }
        info['real'] = got
        info['tables'] = {
            'pairs': sorted((idx[a], idx[b]) for a, b in rr.query('SELECT interval_start_epoch, storm_start_epoch FROM zeta_interval_storm')),
            'flags': [(idx[a], j, mj, it) for a, j, mj, it in rr.query('SELECT start_epoch, is_jump, is_mystery_jump, is_interstorm FROM grid_time_flags ORDER BY start_epoch')],
            'depths': [(idx[a], d) for a, d in rr.query('SELECT storm_start_epoch, total_depth_mm FROM storm_total_rain_depth')],
        }
    if expect is not None:
        info['symbolic'] = expect
        if got['storms'] != expect['storms'] or got['inters'] != expect['inters'] or len(got['rises']) != len(expect['rises']):
            return False, info
    return True, info


def replay_failure(ctx, failure):
    """Reproduce a DB-level failure through the real CLI."""
    m = model_fractions(failure.get('model'))
    ok, info = replay_cli(ctx, m)
    info['expected'] = failure.get('detail')
    info['label'] = failure.get('label')
    if failure.get('kind') == 'exception':
        want = failure['detail'].split(':', 1)[0]
        got = info.get('classify_error', '')
        return got.startswith(want), info
    if not ok:
        return False, info
    bad = concrete_db_oracle(ctx, m, info)
    prop = (failure.get('label') or '')[:3]
    bad = [b for b in bad if b.startswith(prop)] if prop in ('C01', 'C03', 'C04') else bad
    info['problems'] = bad
    return bool(bad), info


def concrete_db_oracle(ctx, m, info):
    """Re-evaluate the DB-level oracles on the real tables (concrete)."""
    epochs, valid, rain, et, zeta, tr, tj = concrete_state(ctx, m)
    G = ctx['G']
    step_h = Fraction(ctx['step_s'], 3600)
    stre = stretches(valid, G, ctx.get('brk', ()))
    bad = []
    storms = info['real']['storms']
    rises = info['real']['rises']
    inters = info['real']['inters']
    pairs = info['tables']['pairs']
    if len({s for _, s in pairs}) != len(pairs) or len({r for r, _ in pairs}) != len(pairs) or not (len(pairs) == len(storms) == len(rises)):
        bad.append('C01: pairing not one-to-one / incomplete')
    sd, rd = dict(storms), dict(rises)
    for r, s in pairs:
        if s in sd and r in rd and max(s, r) > min(sd[s] - 1, rd[r] - 1):
            bad.append('C01: pair storm %r rise %r shares no step' % ((s, sd[s]), (r, rd[r])))
    want_storms, want_rises, want_inter = [], [], []
    for (a, b) in stre:
        if b < a:
            continue
        fl = [rain[i] > tr for i in range(a, b + 1)]
        want_storms += [(a + s, a + e) for s, e in classify_fn.runs_of(fl)]
        fj = [zeta[i + 1] - zeta[i] > tj * step_h for i in range(a, b)]
        want_rises += [(a + s, a + e) for s, e in classify_fn.runs_of(fj)]
    for s in storms:
        if s not in want_storms:
            bad.append('C03: storm %r is not a maximal above-threshold run %r' % (s, want_storms))
    for r in rises:
        if r not in want_rises:
            bad.append('C03: rise %r is not a maximal above-threshold run %r' % (r, want_rises))
    for a, d in info['tables']['depths']:
        if a in sd:
            want = float(sum((rain[i] * step_h for i in range(a, sd[a])), Fraction(0)))
            if abs(d - want) > 1e-9 * max(1.0, abs(want)):
                bad.append('C03: storm %d depth %r, expected %r' % (a, d, want))
    from checks.C04 import concrete_decl
    flags = {a: (j, mj, it) for a, j, mj, it in info['tables']['flags']}
    for (a, b) in stre:
        if b < a:
            continue
        israin = [rain[i] > 0 for i in range(a, b + 1)]
        isjump = [False] + [zeta[i + 1] - zeta[i] > tj * step_h for i in range(a, b)]
        my, it = concrete_decl(b - a + 1, isjump, israin)
        for k in range(b - a + 1):
            f = flags.get(a + k)
            if f is None:
                bad.append('C04: no flag row for sample %d' % (a + k))
            elif (bool(f[0]), bool(f[1]), bool(f[2])) != (isjump[k], my[k], it[k]):
                bad.append('C04: flags of sample %d are %r, expected %r' % (a + k, f, (isjump[k], my[k], it[k])))
        for (s, e) in classify_fn.runs_of(it):
            if e - s >= 2:
                want_inter.append((a + s, a + e - 1))
    if sorted(inters) != sorted(want_inter):
        bad.append('C04: interstorm intervals %r, expected %r' % (sorted(inters), sorted(want_inter)))
    return bad
