"""Shared set-up for the simulate / pestfiles harnesses (C17, C18, C19)."""

import io
from fractions import Fraction

from vf import symx, symsql, loader, libstubs, pipeline, synth, nplite
from checks import dbstate, spline_common

_CACHE = {}

SPLINE_PARAMS = synth.SPLINE_PARAMETERS
PEATCLSM_PARAMS = synth.PEATCLSM_PARAMETERS

# a specific-yield / transmissivity pair whose knots bracket the planted levels (80-120 mm)
SPLINE_PARAMS_LOCAL = """specific_yield:
  type: spline
  zeta_knots_mm:
    - 70.0
    - 90.0
    - 105.0
    - 130.0
  sy_knots:
    - 0.25
    - 0.5
    - 0.375
    - 0.75
transmissivity:
  type: spline
  zeta_knots_mm:
    - 60.0
    - 95.0
    - 140.0
  K_knots_km_d:
    - 0.5
    - 2.0
    - 16.0
  minimum_transmissivity_m2_d: 4.0
"""


def planted(variant=None):
    if variant == 'dropped':
        # a fourth recession high above the others (tau -8..-6: 168..156 mm against <= 120 mm): it shares no
        # level with them, so `spowtd recession` leaves it out of the master curve; its ET differs
        return synth.planted_record(step_s=3600, recessions=((1, 7), (0, 8), (3, 9), (-8, 2)), et_cycle=['0.125', '0.25', '0.0625', '0.5', '1.0'])
    return synth.planted_record(step_s=3600, recessions=((1, 7), (0, 8), (3, 9)), et_cycle=['0.125', '0.25', '0.0625', '0.5'])


def base_db(variant=None):
    """symsql database after load-equivalent state + classify + zeta grid + curvature + rise + recession."""
    key = 'db' if variant is None else 'db:' + variant
    if key not in _CACHE:
        m = pipeline.sym_modules('R')
        rec = planted(variant)
        # the same grid as `spowtd load` builds from the record's files: every instant is a
        # step start, plus one closing instant
        G = len(rec['rain'])
        epochs = list(rec['epochs']) + [rec['epochs'][-1] + rec['step_s']]
        zeta = list(rec['zeta']) + [rec['zeta'][-1]]
        saved = symx._ENGINE
        symx._ENGINE = None
        try:
            with symx.single_path():
                conn = symsql.Connection()
                dbstate.build(conn, epochs, [True] * (G + 1), list(rec['rain'][:G]), list(rec['et'][:G]), zeta, rec['step_s'])
                m['classify'].classify_intervals(conn, Fraction(2), Fraction(4))
                m['zeta_grid'].populate_zeta_grid(conn, Fraction(1))
                m['set_curvature'].set_curvature(conn, Fraction(3, 2))
                conn.commit()
                m['rise'].find_rise_offsets(conn, None)
                m['recession'].find_recession_offsets(conn, None)
        finally:
            symx._ENGINE = saved
        _CACHE[key] = (conn.db, rec)
    db, rec = _CACHE[key]
    return symsql.Connection(db.clone()), rec


def sim_modules():
    """Instrumented simulate_rise / simulate_recession / pestfiles with library contracts bound.
    Returns (modules dict, yaml shim)."""
    if 'sim' not in _CACHE:
        ys = libstubs.YamlShim()
        sy = spline_common.load_sy('R')
        sy.__dict__['scipy'] = type('m', (), {'stats': libstubs.scipy_stats})
        tm = spline_common.load_transmissivity('R')
        sub = {'spowtd.specific_yield': sy, 'spowtd.transmissivity': tm}
        bind = {'yaml': ys, 'integrate_mod': libstubs.integrate_mod}
        mods = {
            'specific_yield': sy, 'transmissivity': tm,
            'simulate_rise': loader.load('spowtd.simulate_rise', 'R', bindings=bind, submodules=sub),
            'simulate_recession': loader.load('spowtd.simulate_recession', 'R', bindings=bind, submodules=sub),
            # pestfiles only formats the parameter values: they stay the parsed doubles
            'pestfiles': loader.load('spowtd.pestfiles', 'R', bindings={'yaml': libstubs.YamlShim(lift=False)}),
        }
        _CACHE['sim'] = (mods, ys)
    return _CACHE['sim']


def real_workflow_run(rec=None, curvature=1.5):
    """RealRun with the planted record taken through load .. recession (real code)."""
    rec = rec or planted()
    rr = pipeline.RealRun(synth.to_csv_texts(rec))
    errs = [rr.load(), rr.classify(2, 4), rr.zeta_grid(1.0), rr.set_curvature(curvature), rr.rise(), rr.recession()]
    if any(e is not None for e in errs):
        rr.close()
        raise RuntimeError('planted workflow failed on the real code: %r' % [repr(e) for e in errs if e is not None])
    return rr
