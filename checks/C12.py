"""C12 -- level-crossing positions are exact for the piecewise-linear record."""

import zlib
from fractions import Fraction

import z3

from vf import symx, loader, nplite, libstubs
from vf.framework import Check, model_fractions


def load_regrid():
    return loader.load('spowtd.regrid', 'R', bindings=BIND)


BIND = {'interp1d': libstubs.interp1d, 'brentq': libstubs.brentq}


def load_fit():
    rg = load_regrid()
    return loader.load('spowtd.fit_offsets', 'R', bindings=FIT_BIND, submodules={'spowtd.regrid': rg})


FIT_BIND = {'linalg_mod': libstubs.linalg}


def harness_regrid(eng, ctx):
    n = ctx['n']
    B = ctx['B']
    rg = load_regrid()
    x = [eng.real('x%d' % i) for i in range(n)]
    y = [eng.real('y%d' % i) for i in range(n)]
    step = ctx['step']
    for a, b in zip(x, x[1:]):
        eng.assume(a < b)
    for v in y:
        # bound the number of grid levels between samples (range() length)
        eng.assume(v <= B * step)
        eng.assume(v >= -B * step)
    try:
        out = list(rg.regrid(nplite.array(x), nplite.array(y), step))
    except Exception as e:
        eng.fail_exception(e)
        return
    # reference: for each consecutive pair the integers m with lo <= m < hi, in the
    # order of travel, each once
    pos = 0
    for i in range(n - 1):
        Y0 = y[i] / step
        Y1 = y[i + 1] / step
        rising = bool(Y1 > Y0)
        lo, hi = (Y0, Y1) if rising else (Y1, Y0)
        ms = [m for m in range(-B - 1, B + 2) if bool(lo <= m) and bool(m < hi)]
        if not rising:
            ms = list(reversed(ms))
        for m in ms:
            if not eng.prove(pos < len(out), 'C12: every level between two samples is reported',
                             detail='pair %d level %d missing' % (i, m)):
                return
            lvl, xc = out[pos]
            pos += 1
            eng.prove(lvl == m, 'C12: reported level', detail='pair %d expected %d got %r' % (i, m, lvl))
            eng.prove(symx.zbool(x[i] <= xc) if isinstance(x[i] <= xc, symx.Sym) else bool(x[i] <= xc), 'C12: crossing not before the left sample')
            eng.prove(xc <= x[i + 1], 'C12: crossing not after the right sample')
            # on the chord: Y0 + (Y1 - Y0) (xc - x_i) / (x_{i+1} - x_i) == m
            if isinstance(xc, symx.Sym) and xc.z.eq(x[i].z):
                on_chord = (Y0 == m)
            elif isinstance(xc, symx.Sym) and xc.z.eq(x[i + 1].z):
                on_chord = (Y1 == m)
            else:
                on_chord = (Y0 + (Y1 - Y0) * ((xc - x[i]) / (x[i + 1] - x[i])) == m)
            eng.prove(on_chord, 'C12: crossing lies on the straight line')
    eng.prove(pos == len(out), 'C12: nothing else is reported', detail='%d extra items' % (len(out) - pos))
    eng.note({'t': 'reached'})
    key = zlib.crc32(repr(eng.decisions).encode()) ^ ctx.get('seed', 0)
    if key % ctx.get('replay_every', 5) == 0:
        w = eng.witness()
        if w is not None:
            ok, info = replay_regrid(n, model_fractions(w), expect=out, step=step)
            eng.note({'t': 'witness', 'n': 1})
            if not ok:
                eng.note({'t': 'witness_mismatch', 'v': info})
            elif len(out) >= 2:
                eng.note({'t': 'sample', 'v': info})


def harness_mapping(eng, ctx):
    """build_head_mapping: value = mean of the crossings of that level (per series)."""
    n = ctx['n']
    B = ctx['B']
    fo = load_fit()
    x = [eng.real('x%d' % i) for i in range(n)]
    y = [eng.real('y%d' % i) for i in range(n)]
    for a, b in zip(x, x[1:]):
        eng.assume(a < b)
    for v in y:
        eng.assume(v <= B)
        eng.assume(v >= -B)
    try:
        mapping = fo.build_head_mapping([(nplite.array(x), nplite.array(y))], 1)
        ref = list(load_regrid().regrid(nplite.array(x), nplite.array(y), 1))
    except Exception as e:
        eng.fail_exception(e)
        return
    by_level = {}
    for lvl, xc in ref:
        by_level.setdefault(int(lvl), []).append(xc)
    eng.prove(sorted(int(k) for k in mapping) == sorted(by_level), 'C12: mapping has exactly the crossed levels')
    for k, entries in mapping.items():
        eng.prove(len(entries) == 1 and entries[0][0] == 0, 'C12: one entry per series and level')
        xs = by_level.get(int(k), [])
        if xs:
            # the second regrid run has its own root symbols; both satisfy the same
            # chord equation, so compare through the mean of *that* run's roots by
            # proving the mean relation on the mapping's own value instead:
            tot = sum(xs[1:], xs[0])
            eng.prove(entries[0][1] * len(xs) == tot, 'C12: mapping value is the mean crossing of the level')
    eng.note({'t': 'reached'})


# ---- bit-precise level assignment of samples that sit exactly on a grid level -----------------
class _CeilReached(BaseException):
    pass


class _CapturingNumpy:
    """nplite with ``ceil`` cut: the argument of np.ceil in regrid is the series in units of
    the step; its terms are what decides which level a sample belongs to."""

    def __init__(self, sink):
        self._sink = sink

    def ceil(self, a):
        self._sink.append(list(nplite.asarray(a)._d))
        raise _CeilReached()

    def __getattr__(self, name):
        return getattr(nplite.np, name)


def harness_levels_fp(eng, ctx):
    """A sample exactly on level k (y = k * step, exactly representable) followed by one half a
    step higher: the series in step units handed to np.ceil must be exactly (k, k + 1/2), so that
    level k is reported for the pair (lower value included) and k + 1 is not."""
    nplite.set_float_mode('F')
    try:
        step = float(ctx['step'])
        K = ctx['K']
        sink = []
        rg = loader.load('spowtd.regrid', 'F', bindings=dict(BIND, np=_CapturingNumpy(sink)), fresh=True)
        fo = loader.load('spowtd.fit_offsets', 'F', bindings=FIT_BIND, submodules={'spowtd.regrid': rg}, fresh=True)
        k = eng.fint('k', -K, K)
        kfp = eng.fp_atoms['k']
        R = z3.RNE()
        F = symx.F64()
        y0 = symx.SymF64(z3.fpMul(R, kfp, z3.FPVal(step, F)))          # exact for the steps used (checked below)
        y1 = symx.SymF64(z3.fpAdd(R, y0.z, z3.FPVal(step / 2, F)))
        t = nplite.array([0.0, 1800.0])
        H = nplite.ndarray([y0, y1], (2,), nplite.float64)
        try:
            fo.build_head_mapping([(t, H)], step)
        except _CeilReached:
            pass
        except Exception as e:
            eng.fail_exception(e, label='C12: regridding fails on an on-grid sample (double precision)')
            return
        if not eng.prove(len(sink) == 1 and len(sink[0]) == 2, 'C12: level computation reached'):
            return
        Y0, Y1 = (symx._lift_f64(v) for v in sink[0])
        eng.prove(z3.fpEQ(Y0, kfp), 'C12: a sample exactly on level k is assigned level k (double precision)',
                  detail='step %r' % step)
        eng.prove(z3.And(z3.fpGT(Y1, kfp), z3.fpLEQ(Y1, z3.fpAdd(R, kfp, z3.FPVal(1.0, F)))),
                  'C12: a sample half a step above level k lies between k and k+1 (double precision)', detail='step %r' % step)
        eng.note({'t': 'reached'})
    finally:
        nplite.set_float_mode('R')


def _fp_task(args):
    st, K, tmo = args
    return symx.explore(harness_levels_fp, {'step': st, 'K': K}, name='levels_fp[step=%s]' % st, workers=1,
                        engine_kw={'query_timeout_ms': tmo, 'oneshot_tactic': 'qffp'})


def replay_levels_fp(step, k):
    import numpy as np
    real = loader.real_module('spowtd.fit_offsets')
    y0 = float(k) * step
    H = np.array([y0, y0 + step / 2])
    t = np.array([0.0, 1800.0])
    info = {'series': H.tolist(), 'step': step, 'k': k}
    try:
        mp_ = real.build_head_mapping([(t, H)], step)
    except Exception as e:
        info['observed'] = '%s: %s' % (type(e).__name__, e)
        return True, info
    got = {int(a): [(int(s_), float(v)) for s_, v in b] for a, b in mp_.items()}
    info['observed'] = got
    return got != {k: [(0, 0.0)]}, info


def replay_regrid(n, m, expect=None, label=None, step=1):
    import numpy as np
    real = loader.real_module('spowtd.regrid')
    x = np.array([float(m.get('x%d' % i, i)) for i in range(n)])
    y = np.array([float(m.get('y%d' % i, 0)) for i in range(n)])
    step = float(step)
    info = {'x': x.tolist(), 'y': y.tolist(), 'step': step}
    try:
        got = [(int(l), float(v)) for l, v in real.regrid(x, y, step)]
    except Exception as e:
        info['real_exception'] = '%s: %s' % (type(e).__name__, str(e)[:200])
        info['trace'] = symx.site_of_exception(e)
        return False, info
    info['real'] = got
    if expect is not None:
        lv = [int(l) for l, _ in expect]
        info['symbolic_levels'] = lv
        if lv != [l for l, _ in got]:
            return False, info
        # positions: compare with the exact chord crossing
        for (l, xc), i in zip(got, _pair_index(x, y, step, got)):
            if i is None:
                return False, info
            X0, X1, Y0, Y1 = Fraction(x[i]), Fraction(x[i + 1]), Fraction(y[i]) / Fraction(step), Fraction(y[i + 1]) / Fraction(step)
            exact = X0 + (l - Y0) * (X1 - X0) / (Y1 - Y0)
            if abs(Fraction(xc) - exact) > Fraction(1, 10 ** 6) * max(1, abs(exact)):
                info['position_error'] = [l, xc, float(exact)]
                return False, info
    return True, info


def _pair_index(x, y, step, got):
    """Index of the sample pair each reported crossing belongs to (by position)."""
    out = []
    for l, xc in got:
        idx = None
        for i in range(len(x) - 1):
            if x[i] <= xc <= x[i + 1] and min(y[i], y[i + 1]) / step - 1e-9 <= l <= max(y[i], y[i + 1]) / step + 1e-9 and y[i] != y[i + 1]:
                idx = i
                break
        out.append(idx)
    return out


def reference_crossings(x, y, step):
    """Exact reference on Fractions: [(level, position)] per the property's wording."""
    out = []
    for i in range(len(x) - 1):
        Y0, Y1 = Fraction(y[i]) / Fraction(step), Fraction(y[i + 1]) / Fraction(step)
        if Y0 == Y1:
            continue
        import math
        lo, hi = min(Y0, Y1), max(Y0, Y1)
        ms = list(range(math.ceil(lo), math.ceil(hi)))
        if Y1 < Y0:
            ms.reverse()
        for m in ms:
            out.append((m, Fraction(x[i]) + (m - Y0) * (Fraction(x[i + 1]) - Fraction(x[i])) / (Y1 - Y0)))
    return out


class C12(Check):
    pid = 'C12'

    def run(self):
        quick = self.tier == 'quick'
        n = 3 if quick else 4
        B = 2 if quick else 2
        self.bounds = {'samples': '2..%d' % n, '|y|/step': '<= %d (at most %d levels between two samples)' % (B, 2 * B + 1),
                       'x': 'strictly increasing reals', }
        self.unit('spowtd.regrid', 'regrid')
        self.unit('spowtd.fit_offsets', 'build_head_mapping')
        self.assumptions = ['R-mode: exact reals; one-ulp behaviour of scipy interp1d/brentq is outside the solver claim '
                            '(witness replays compare the real code with the exact chord crossing to 1e-6 relative)']
        self.stubs = ['scipy.interpolate.interp1d(kind=linear) -> piecewise-linear function (segment by forking)',
                      'scipy.optimize.brentq -> ValueError unless signs differ; else fresh r in [a,b] with f(r)=0',
                      'numpy -> vf.nplite']
        self.outside = ['more than %d samples per series' % n, 'interpolants other than linear (regrid is only called with the default)']
        steps = [Fraction(1), Fraction(3, 10)] if quick else [Fraction(1), Fraction(1, 2), Fraction(3, 10), Fraction(5, 2), Fraction(1, 10)]
        self.bounds['step'] = [str(s) for s in steps]
        for step in steps:
            for k in range(2, n + 1):
                exp = symx.explore(harness_regrid, {'n': k, 'B': B, 'seed': self.seed, 'replay_every': 3, 'step': step},
                                   name='regrid[n=%d,step=%s]' % (k, step), engine_kw={'query_timeout_ms': 8000})
                self.absorb(exp, need_paths=2)
        exp = symx.explore(harness_mapping, {'n': 3, 'B': 1 if quick else 2}, name='build_head_mapping[n=3]',
                           engine_kw={'query_timeout_ms': 30000})
        self.absorb(exp, need_paths=2)
        # bit-precise: samples exactly on a grid level (steps for which k*step is exact)
        fsteps = ['1', '0.5', '3', '75', '49'] if quick else ['1', '0.5', '0.25', '3', '7', '75', '49', '98', '103']
        K = 1024 if quick else 65536
        self.bounds['F-mode on-grid samples'] = {'steps': fsteps, '|k|': K}
        self.assumptions.append('F-mode harness: y = k*step exactly representable (integer or dyadic steps), second sample half a step higher; '
                                'cut at np.ceil: the rest of regrid is covered over the reals')
        import multiprocessing as mp
        from vf.framework import run_tasks
        lost = lambda t, why: self.harness_errors.append('levels_fp[step=%s]: no result: %s' % (t[0], why))
        if True:
            for exp in run_tasks(_fp_task, [(st, K, 120000 if quick else 900000) for st in fsteps], min(9, len(fsteps)), lost, timeout_s=1200 if quick else 2 * 3600):
                self.absorb(exp, need_paths=1)
        for f in self.failures:
            if f['harness'].startswith('levels_fp'):
                continue
            f['n'] = int(f['harness'].split('n=')[1].split(',')[0].rstrip(']'))
            f['step'] = f['harness'].split('step=')[1].rstrip(']') if 'step=' in f['harness'] else '1'

    def replay(self, failure):
        if failure['harness'].startswith('levels_fp'):
            st = float(failure['harness'].split('=')[1].rstrip(']'))
            mm = model_fractions(failure.get('model'))
            bad, info = replay_levels_fp(st, int(mm.get('k', 0)))
            info['expected'] = failure.get('detail')
            return bad, info
        n = failure['n']
        m = model_fractions(failure.get('model'))
        import numpy as np
        x = np.array([float(m.get('x%d' % i, i)) for i in range(n)])
        y = np.array([float(m.get('y%d' % i, 0)) for i in range(n)])
        step = float(Fraction(failure.get('step', '1')))
        info = {'x': x.tolist(), 'y': y.tolist(), 'step': step, 'expected': failure.get('detail'), 'label': failure.get('label')}
        if failure['harness'].startswith('build_head_mapping'):
            real = loader.real_module('spowtd.fit_offsets')
            info['entry'] = 'spowtd.fit_offsets.build_head_mapping'
            try:
                mp = real.build_head_mapping([(x, y)], 1)
            except Exception as e:
                info['observed'] = '%s: %s' % (type(e).__name__, e)
                return (failure.get('kind') == 'exception' and failure['detail'].startswith(type(e).__name__)), info
            ref = {}
            for l, p in reference_crossings(x, y, 1):
                ref.setdefault(l, []).append(p)
            got = {int(k): [(int(s), float(t)) for s, t in v] for k, v in mp.items()}
            info['observed'] = got
            bad = sorted(got) != sorted(ref) or any(
                len(v) != 1 or abs(Fraction(v[0][1]) - sum(ref[k]) / len(ref[k])) > Fraction(1, 10 ** 6) * max(1, abs(sum(ref[k]) / len(ref[k])))
                for k, v in got.items() if k in ref)
            return (bad and failure.get('kind') != 'exception'), info
        real = loader.real_module('spowtd.regrid')
        info['entry'] = 'spowtd.regrid.regrid'
        try:
            got = [(int(l), float(v)) for l, v in real.regrid(x, y, step)]
        except Exception as e:
            info['observed'] = '%s: %s' % (type(e).__name__, str(e)[:200])
            info['trace'] = symx.site_of_exception(e)
            return (failure.get('kind') == 'exception' and failure['detail'].startswith(type(e).__name__)), info
        ref = reference_crossings(x, y, step)
        info['observed'] = got
        info['reference'] = [(l, float(p)) for l, p in ref]
        if failure.get('kind') == 'exception':
            return False, info
        bad = [l for l, _ in got] != [l for l, _ in ref] or any(
            abs(Fraction(g[1]) - r[1]) > Fraction(1, 10 ** 6) * max(1, abs(r[1])) for g, r in zip(got, ref))
        return bad, info
