"""C10 -- loaded series reproduce the source data on one uniform time grid.

The real ``load.load_data`` runs on symsql.  The three input "files" are in-memory
CSV texts with concrete timestamps and *token* values: the tokens survive the real
csv reader as strings and are resolved to symbolic reals by the column affinity of
the staging tables, so every loaded number is a term over the source values.
Configurations (record offsets, sampling ratio, gaps, row order) are enumerated by
the engine; values are symbolic.
"""

import io
import itertools
from fractions import Fraction

import z3

from vf import symx, symsql, loader, nplite, pipeline, synth
from vf.framework import Check, model_fractions

ORIGIN = 1577836800      # 2020-01-01 00:00:00 UTC


def make_config(eng, ctx):
    """Choose a configuration; returns dict with concrete epochs and row orders."""
    s = ctx['step_s']
    R = ctx['rain_rows']
    ratios = ctx['ratios']                 # level step as a fraction of the rain step
    sw = int(s * Fraction(ratios[eng.choose(len(ratios), 'ratio')]))
    unit = ctx.get('offset_unit', s // 6)
    offs = ctx['offsets']                  # start offset of the level record in units
    w0 = ORIGIN + unit * offs[eng.choose(len(offs), 'offset')]
    L = ctx['level_rows']
    L = L[eng.choose(len(L), 'nlevel')] if isinstance(L, (list, tuple)) else L
    rain_t = [ORIGIN + i * s for i in range(R)]
    level_all = [w0 + j * sw for j in range(L)]
    # gaps: interior rows that are missing from the level file
    missing = [False] * L
    max_missing = ctx.get('max_missing', 2)
    nmiss = 0
    for j in range(1, L - 1):
        if nmiss < max_missing and eng.choose(2, 'miss'):
            missing[j] = True
            nmiss += 1
    level_t = [t for t, m in zip(level_all, missing) if not m]
    et_extra = ctx.get('et_extra', 2)
    et_t = [ORIGIN + i * s for i in range(-1, R + et_extra)]
    order = ctx.get('orders', ['sorted'])
    order = order[eng.choose(len(order), 'order')]
    return {'s': s, 'sw': sw, 'rain_t': rain_t, 'level_t': level_t, 'et_t': et_t, 'order': order}


def reorder(rows, how):
    if how == 'sorted':
        return list(rows)
    if how == 'reversed':
        return list(reversed(rows))
    if how == 'interleaved':
        return rows[1::2] + rows[0::2]
    raise ValueError(how)


def make_texts(eng, cfg):
    """CSV texts with token values; returns (texts, symbol tables)."""
    symsql.TOKENS.clear()
    rain = {t: eng.real('rain@%d' % (t - ORIGIN)) for t in cfg['rain_t']}
    et = {t: eng.real('et@%d' % (t - ORIGIN)) for t in cfg['et_t']}
    lev = {t: eng.real('zeta@%d' % (t - ORIGIN)) for t in cfg['level_t']}

    def text(header, table, prefix):
        lines = [header]
        for t in reorder(sorted(table), cfg['order']):
            tok = symsql.token('<%s:%d>' % (prefix, t - ORIGIN), table[t])
            lines.append('%s,%s' % (synth.fmt_time(t), tok))
        return '\n'.join(lines) + '\n'
    texts = (text('Datetime,Precipitation (mm/h)', rain, 'rain'), text('Datetime,ET (mm/h)', et, 'et'),
             text('Datetime,Water level (mm)', lev, 'zeta'))
    return texts, rain, et, lev


def expected_state(cfg, rain, et, lev):
    """The property's own reading, from the configuration alone."""
    s = cfg['s']
    lt = sorted(lev)
    lo, hi = lt[0], lt[-1]
    grid = [t for t in sorted(rain) if lo <= t <= hi]
    if len(grid) < 2:
        return None
    closing = grid[-1] + s
    steps = [b - a for a, b in zip(lt, lt[1:])]
    dmin = min(steps)
    out = {'grid': grid + [closing], 'closing': closing}
    level = {}
    label = {}
    # gap-free stretches of the source record
    stretches = [[lt[0]]]
    for a, b in zip(lt, lt[1:]):
        if b - a == dmin:
            stretches[-1].append(b)
        else:
            stretches.append([b])
    for g in grid + [closing]:
        for k, st in enumerate(stretches):
            if st[0] <= g <= st[-1]:
                label[g] = k
                # bracketing pair of adjacent samples
                for a, b in zip(st, st[1:]):
                    if a <= g <= b:
                        level[g] = lev[a] + (lev[b] - lev[a]) * Fraction(g - a, b - a)
                        break
                else:
                    level[g] = lev[st[0]]      # single-sample stretch: g == that sample
                break
    out['level'] = level
    out['label'] = label
    return out


def harness(eng, ctx):
    nplite.set_float_mode('R')
    m = pipeline.sym_modules('R')
    cfg = make_config(eng, ctx)
    texts, rain, et, lev = make_texts(eng, cfg)
    want = expected_state(cfg, rain, et, lev)
    if want is None or len(lev) < 2:
        raise symx.PathAbort('fewer than two rain instants inside the level record / fewer than two level rows')
    conn = symsql.Connection()
    try:
        m['load'].load_data(conn, io.StringIO(texts[0]), io.StringIO(texts[1]), io.StringIO(texts[2]), 'UTC')
    except Exception as e:
        eng.fail_exception(e, label='C10: a well-formed input is not loaded')
        return
    finally:
        symsql.TOKENS.clear()
    db = conn.db
    s = cfg['s']
    grid = [r['epoch'] for r in db.tables['grid_time'].scan()]
    eng.prove(grid == want['grid'], 'C10: grid = rain timestamps within the level span + one closing instant',
              detail='got %r expected %r' % ([g - ORIGIN for g in grid], [g - ORIGIN for g in want['grid']]))
    tg = db.tables['time_grid'].rows
    eng.prove(len(tg) == 1 and tg[0]['time_step_s'] == s, 'C10: recorded time step')
    for name, src, col in (('rainfall_intensity', rain, 'rainfall_intensity_mm_h'), ('evapotranspiration', et, 'evapotranspiration_mm_h')):
        rows = {r['from_epoch']: r for r in db.tables[name].rows}
        eng.prove(sorted(rows) == want['grid'][:-1], 'C10: one %s row per grid step' % name)
        for t in want['grid'][:-1]:
            if t in rows:
                eng.prove(rows[t]['thru_epoch'] == t + s, 'C10: %s step spans [t, t+step)' % name)
                eng.prove(rows[t][col] == src[t], 'C10: %s on a grid step equals the source value of that step' % name)
    wl = {r['epoch']: r['zeta_mm'] for r in db.tables['water_level'].rows}
    labels = {r['epoch']: r['data_interval'] for r in db.tables['grid_time'].rows}
    for g in want['grid']:
        if g in want['level']:
            if g != want['closing']:
                if eng.prove(g in wl, 'C10: a water level is produced for every instant covered by the record', detail='t=%d' % (g - ORIGIN)):
                    eng.prove(wl[g] == want['level'][g], 'C10: water level = linear interpolation of the two adjacent samples',
                              detail='t=%d' % (g - ORIGIN))
            eng.prove(labels.get(g) is not None, 'C10: covered instant carries a label', detail='t=%d' % (g - ORIGIN))
        else:
            eng.prove(g not in wl, 'C10: no water level strictly inside a gap', detail='t=%d' % (g - ORIGIN))
            if g <= max(lev):
                # (the closing instant may lie beyond the end of the level record: the
                # property says nothing about its label)
                eng.prove(labels.get(g) is None, 'C10: instant inside a gap carries no label', detail='t=%d' % (g - ORIGIN))
    eng.prove(set(wl) <= set(want['grid'][:-1]), 'C10: water levels only at grid instants')
    covered = [g for g in want['grid'] if g in want['label'] and labels.get(g) is not None]
    for a, b in itertools.combinations(covered, 2):
        same = want['label'][a] == want['label'][b]
        eng.prove((labels[a] == labels[b]) == same, 'C10: same label within a stretch, distinct labels across gaps',
                  detail='t=%d,%d' % (a - ORIGIN, b - ORIGIN))
    eng.note({'t': 'reached'})
    if ctx.get('replay') and eng.stats.paths % ctx.get('replay_every', 7) == 0:
        w = eng.witness()
        if w is not None:
            ok, info = replay_real(cfg, model_fractions(w))
            eng.note({'t': 'witness', 'n': 1})
            if not ok:
                eng.note({'t': 'witness_mismatch', 'v': info})
            elif eng.stats.paths % 21 == 0:
                eng.note({'t': 'sample', 'v': info})


def concrete_texts(cfg, m):
    def val(prefix, t, default):
        return Fraction(m.get('%s@%d' % (prefix, t - ORIGIN), default))
    rain = {t: val('rain', t, 0) for t in cfg['rain_t']}
    et = {t: val('et', t, 0) for t in cfg['et_t']}
    lev = {t: val('zeta', t, 0) for t in cfg['level_t']}

    def text(header, table):
        lines = [header]
        for t in reorder(sorted(table), cfg['order']):
            lines.append('%s,%s' % (synth.fmt_time(t), synth.fmt_num(table[t])))
        return '\n'.join(lines) + '\n'
    return (text('Datetime,P', rain), text('Datetime,ET', et), text('Datetime,WL', lev)), rain, et, lev


def replay_real(cfg, m, label=None):
    """`spowtd load` of the real code on files generated from the model; compare with the
    property's reading."""
    texts, rain, et, lev = concrete_texts(cfg, m)
    want = expected_state(cfg, rain, et, lev)
    info = {'level_epochs': [t - ORIGIN for t in sorted(lev)], 'rain_epochs': [t - ORIGIN for t in sorted(rain)],
            'row_order': cfg['order'], 'command': 'spowtd load --timezone UTC'}
    with pipeline.RealRun(texts) as rr:
        err = rr.load()
        if err is not None:
            info['error'] = '%s: %s' % (type(err).__name__, str(err)[:200])
            return False, info
        grid = [r[0] for r in rr.query('SELECT epoch FROM grid_time ORDER BY epoch')]
        labels = dict(rr.query('SELECT epoch, data_interval FROM grid_time'))
        wl = dict(rr.query('SELECT epoch, zeta_mm FROM water_level'))
        ri = {a: (b, v) for a, b, v in rr.query('SELECT from_epoch, thru_epoch, rainfall_intensity_mm_h FROM rainfall_intensity')}
        ev = {a: (b, v) for a, b, v in rr.query('SELECT from_epoch, thru_epoch, evapotranspiration_mm_h FROM evapotranspiration')}
    problems = []
    if want is None:
        info['note'] = 'degenerate configuration'
        return True, info
    if grid != want['grid']:
        problems.append('grid %r expected %r' % ([g - ORIGIN for g in grid], [g - ORIGIN for g in want['grid']]))
    s = cfg['s']
    for t in want['grid'][:-1]:
        for name, got, src in (('rain', ri, rain), ('ET', ev, et)):
            if t not in got or got[t][0] != t + s or abs(got[t][1] - float(src[t])) > 1e-9 * max(1.0, abs(float(src[t]))):
                problems.append('%s row at %d: %r expected %r' % (name, t - ORIGIN, got.get(t), float(src[t])))
    for g in want['grid']:
        if g in want['level']:
            if g != want['closing']:
                if g not in wl or abs(wl[g] - float(want['level'][g])) > 1e-9 * max(1.0, abs(float(want['level'][g]))):
                    problems.append('water level at %d: %r expected %r' % (g - ORIGIN, wl.get(g), float(want['level'][g])))
            if labels.get(g) is None:
                problems.append('covered instant %d has no label' % (g - ORIGIN))
        else:
            if g in wl:
                problems.append('water level %r produced inside a gap at %d' % (wl[g], g - ORIGIN))
            if labels.get(g) is not None and g <= max(lev):
                problems.append('instant %d inside a gap carries label %r' % (g - ORIGIN, labels[g]))
    cov = [g for g in want['grid'] if g in want['label'] and labels.get(g) is not None]
    for a, b in itertools.combinations(cov, 2):
        if (labels[a] == labels[b]) != (want['label'][a] == want['label'][b]):
            problems.append('labels of %d and %d: %r %r' % (a - ORIGIN, b - ORIGIN, labels[a], labels[b]))
    info['problems'] = problems[:6]
    return not problems, info


def ctx_for(tier, seed):
    quick = tier == 'quick'
    return {
        'step_s': 1800,
        'rain_rows': 5 if quick else 6,
        'level_rows': [4, 7] if quick else [3, 5, 8, 10],
        'ratios': ['1', '1/2', '1/3', '2/3', '2'],
        'offsets': [-4, 0, 3, 6] if quick else [-7, -4, 0, 2, 3, 6, 9],
        'offset_unit': 300,
        'max_missing': 1 if quick else 2,
        'orders': ['sorted', 'reversed'] if quick else ['sorted', 'reversed', 'interleaved'],
        'replay': True, 'replay_every': 5, 'seed': seed,
    }


class C10(Check):
    pid = 'C10'

    def run(self):
        ctx = ctx_for(self.tier, self.seed)
        self.ctx = ctx
        self.unit('spowtd.load', 'load_data', 'generate_timestamped_rows', 'populate_grid_time', 'populate_rainfall_intensity',
                  'populate_evapotranspiration', 'populate_water_level')
        self.unit('spowtd.schema.sql', 'tables and constraints (foreign keys enforced by load)')
        self.bounds = {k: ctx[k] for k in ('step_s', 'rain_rows', 'level_rows', 'ratios', 'offsets', 'offset_unit', 'max_missing', 'orders')}
        self.bounds['values'] = 'every rainfall, ET and level value a symbolic real'
        self.assumptions = ['R-mode', 'time zone UTC (time-zone conversion is C11)', 'at least two level rows and two rain instants inside the level span',
                            'a gap is a pair of consecutive level samples farther apart than the smallest spacing of the record']
        self.stubs = ['sqlite3 -> vf.symsql with foreign keys enforced as load requests', 'numpy -> vf.nplite (np.interp with its documented clamping)',
                      'csv, datetime, pytz: real (timestamps are concrete text)']
        self.outside = ['more rows than the bounds', 'value parsing of the csv text (tokens stand for the parsed values)']
        self.run_conformance(patterns=None)
        exp = symx.explore(harness, ctx, name='load_data')
        self.absorb(exp, need_paths=10)

    def replay(self, failure):
        # the configuration is an engine choice: re-derive it from the decision prefix is not
        # possible here, so every configuration of the context is tried with the model values
        m = model_fractions(failure.get('model'))
        info = {'expected': failure.get('detail'), 'label': failure.get('label')}
        ctx = ctx_for(self.tier, self.seed)
        present = sorted(int(k.split('@')[1]) for k in m if k.startswith('zeta@'))
        rain_present = sorted(int(k.split('@')[1]) for k in m if k.startswith('rain@'))
        tried = 0
        for cfg in all_configs(ctx):
            if [t - ORIGIN for t in cfg['level_t']] != present or [t - ORIGIN for t in cfg['rain_t']] != rain_present:
                continue
            tried += 1
            ok, inf = replay_real(cfg, m)
            if failure.get('kind') == 'exception':
                if 'error' in inf and inf['error'].startswith(failure['detail'].split(':')[0]):
                    inf.update(info)
                    return True, inf
            elif not ok and 'error' not in inf:
                inf.update(info)
                return True, inf
        info['observed'] = 'not reproduced (%d matching configurations)' % tried
        return False, info


def all_configs(ctx):
    s = ctx['step_s']
    R = ctx['rain_rows']
    Ls = ctx['level_rows'] if isinstance(ctx['level_rows'], (list, tuple)) else [ctx['level_rows']]
    for ratio in ctx['ratios']:
        sw = int(s * Fraction(ratio))
        for off in ctx['offsets']:
            w0 = ORIGIN + ctx.get('offset_unit', s // 6) * off
            for L in Ls:
                level_all = [w0 + j * sw for j in range(L)]
                for miss in itertools.product([False, True], repeat=max(0, L - 2)):
                    if sum(miss) > ctx.get('max_missing', 2):
                        continue
                    missing = [False] + list(miss) + [False]
                    level_t = [t for t, mm in zip(level_all, missing) if not mm]
                    for order in ctx.get('orders', ['sorted']):
                        yield {'s': s, 'sw': sw, 'rain_t': [ORIGIN + i * s for i in range(R)], 'level_t': level_t,
                               'et_t': [ORIGIN + i * s for i in range(-1, R + ctx.get('et_extra', 2))], 'order': order}
