"""C17 -- the simulated rise curve is the integral of specific yield."""

import io
from fractions import Fraction

import z3

from vf import symx, symsql, loader, nplite, libstubs, pipeline, synth
from vf.framework import Check, model_fractions
from checks import spline_common, sim_common
from checks.C14 import antiderivative, KNOTS


def harness_curve(eng, ctx):
    """compute_rise_curve on a symbolic increasing grid (spline specific yield)."""
    nplite.set_float_mode('R')
    mods, ys = sim_common.sim_modules()
    sy_mod = mods['specific_yield']
    knots = [Fraction(v) for v in KNOTS[ctx['knots']]]
    yv = [eng.real('y%d' % i) for i in range(len(knots))]
    sy = sy_mod.SplineSpecificYield(list(knots), list(yv))
    n = ctx['n']
    z = [eng.real('z%d' % i) for i in range(n)]
    for a, b in zip(z, z[1:]):
        eng.assume(a < b)
    mean = eng.real('mean')
    try:
        W = mods['simulate_rise'].compute_rise_curve(sy, nplite.array(z), mean)
        # refinement: one more level between z0 and z1
        zm = eng.real('zm')
        eng.assume(z[0] < zm)
        eng.assume(zm < z[1])
        W2 = mods['simulate_rise'].compute_rise_curve(sy, nplite.array([z[0], zm] + z[1:]), mean)
    except Exception as e:
        eng.fail_exception(e)
        return
    G = [antiderivative(sy, knots, v) for v in z]
    eng.prove(len(W) == n, 'C17: one value per grid level')
    for i in range(n):
        for j in range(i + 1, n):
            eng.prove(W[j] - W[i] == G[j] - G[i], 'C17: storage difference = integral of specific yield between the levels',
                      detail='levels %d,%d' % (i, j))
    eng.prove(sum(W._d[1:], W._d[0]) == n * mean, 'C17: mean equals the requested mean')
    # values at shared levels: differences unchanged under refinement
    shared2 = [W2[0]] + [W2[k + 1] for k in range(1, n)]
    for i in range(n):
        for j in range(i + 1, n):
            eng.prove(shared2[j] - shared2[i] == W[j] - W[i], 'C17: differences at shared levels do not change when the grid is refined')
    # never decreases when specific yield is non-negative: the antiderivative of a non-negative
    # function is non-decreasing (analysis fact, instantiated on the levels that occur)
    info = libstubs._info(sy._spline._tck)
    nonneg = z3.And(*[symx.zbool(yy >= 0) for yy in yv])
    lo, hi = knots[0], knots[-1]
    facts = []
    for a, b in zip(z, z[1:]):
        ca = a if (a >= lo and a <= hi) else (lo if a < lo else hi)
        cb = b if (b >= lo and b <= hi) else (lo if b < lo else hi)
        facts.append(info['F'](libstubs._zr(cb)) >= info['F'](libstubs._zr(ca)))
    facts.append(symx.zbool(symx.wrap(info['S'](libstubs._zr(lo))) == yv[0]))
    for i in range(n - 1):
        eng.prove(z3.Implies(z3.And(nonneg, *facts), symx.zbool(W[i + 1] >= W[i])),
                  'C17: the curve never decreases with level when specific yield is non-negative')
    eng.note({'t': 'reached'})
    if eng.stats.paths % ctx.get('replay_every', 6) == 0:
        w = eng.witness()
        if w is not None:
            ok, inf = replay_curve(ctx, model_fractions(w))
            eng.note({'t': 'witness', 'n': 1})
            if not ok:
                eng.note({'t': 'witness_mismatch', 'v': inf})
            elif eng.stats.paths % 30 == 0:
                eng.note({'t': 'sample', 'v': inf})


def replay_curve(ctx, m):
    import numpy as np
    from scipy.integrate import quad
    real_sr = loader.real_module('spowtd.simulate_rise')
    real_sy = loader.real_module('spowtd.specific_yield')
    knots = [float(Fraction(v)) for v in KNOTS[ctx['knots']]]
    yv = [float(m.get('y%d' % i, 0.3)) for i in range(len(knots))]
    z = [float(m.get('z%d' % i, i)) for i in range(ctx['n'])]
    mean = float(m.get('mean', 0))
    info = {'knots': knots, 'sy': yv, 'grid': z, 'mean': mean}
    if any(b <= a for a, b in zip(z, z[1:])):
        info['skipped'] = 'grid not increasing in doubles'
        return True, info
    sy = real_sy.SplineSpecificYield(knots, yv)
    try:
        W = real_sr.compute_rise_curve(sy, np.array(z), mean)
    except Exception as e:
        info['real_exception'] = '%s: %s' % (type(e).__name__, e)
        return False, info
    info['W'] = W.tolist()
    scale = max(1.0, max(abs(v) for v in yv)) * max(1.0, z[-1] - z[0])
    probs = []
    if abs(W.mean() - mean) > 1e-9 * max(1.0, abs(mean), scale):
        probs.append('mean %r != %r' % (W.mean(), mean))
    for i in range(len(z) - 1):
        pts = [k for k in knots if z[i] < k < z[i + 1]]
        area = quad(lambda x: float(sy(x)), z[i], z[i + 1], points=pts or None, limit=200)[0]
        if abs((W[i + 1] - W[i]) - area) > 1e-6 * scale:
            probs.append('W[%d]-W[%d]=%r but area=%r' % (i + 1, i, W[i + 1] - W[i], area))
    info['problems'] = probs
    return not probs, info


def harness_command(eng, ctx):
    """simulate_rise on a dataset with symbolic interval offsets (measured curve symbolic)."""
    nplite.set_float_mode('R')
    mods, ys = sim_common.sim_modules()
    conn, rec = sim_common.base_db()
    t = conn.db.tables['rising_interval']
    for k, row in enumerate(t.rows):
        row['rain_depth_offset_mm'] = eng.real('offset%d' % k)
    params = ctx['params']
    obs = ctx['observations']
    out = io.StringIO()
    del ys.dumped[:]
    try:
        mods['simulate_rise'].simulate_rise(conn, io.StringIO(params), out, obs)
    except Exception as e:
        eng.fail_exception(e)
        return
    view = conn.execute('SELECT zeta_mm, mean_crossing_depth_mm FROM average_rising_depth ORDER BY zeta_mm').fetchall()
    levels = [r[0] for r in view]
    measured = [r[1] for r in view]
    if not eng.prove(len(ys.dumped) == 1, 'C17: one YAML document is written'):
        return
    doc = ys.dumped[0]
    # independent simulated curve: integrals of the same specific yield between the view's levels
    import yaml
    p = libstubs._lift_floats(yaml.safe_load(params))['specific_yield']
    sy = mods['specific_yield'].create_specific_yield_function(dict(p))
    n = len(levels)
    if obs:
        eng.prove(out.getvalue().startswith('# Rise curve simulation vector\n'), 'C17: observation vector header')
        sim = list(doc)
        eng.prove(len(sim) == n, 'C17: one simulated value per level of the measured curve')
    else:
        eng.prove(doc[0] == ['Water level, mm', 'Measured storage, mm', 'Simulated storage, mm'], 'C17: table header')
        body = doc[1:]
        if not eng.prove(len(body) == n, 'C17: one row per level of the measured master curve'):
            return
        for k in range(n):
            eng.prove(body[k][0] == levels[k], 'C17: rows list the levels in mm in ascending order', detail='row %d' % k)
            eng.prove(body[k][1] == measured[k], 'C17: measured storage column is the master curve value')
        sim = [r[2] for r in body]
    if len(sim) == n:
        for k in range(n - 1):
            eng.prove(sim[k + 1] - sim[k] == sy.integrate(levels[k], levels[k + 1]),
                      'C17: simulated column differs between levels by the integral of specific yield')
        tot_s = sum(sim[1:], sim[0])
        tot_m = sum(measured[1:], measured[0])
        eng.prove(tot_s == tot_m, 'C17: mean of the simulated curve equals the mean of the measured curve')
    eng.note({'t': 'reached'})
    eng.note({'t': 'sample', 'v': {'levels': n, 'observations_only': obs, 'first_level_mm': str(levels[0])}})


def replay_command(params, obs):
    """Real `spowtd simulate rise` on the planted dataset: structure and numbers."""
    import yaml
    import numpy as np
    from scipy.integrate import quad
    info = {'command': 'spowtd simulate rise' + (' --observations' if obs else '')}
    rr = sim_common.real_workflow_run()
    try:
        err, text = rr.simulate('rise', params, observations=obs)
        if err is not None:
            info['error'] = repr(err)
            return False, info
        view = rr.query('SELECT zeta_mm, mean_crossing_depth_mm FROM average_rising_depth ORDER BY zeta_mm')
    finally:
        rr.close()
    doc = yaml.safe_load(text)
    real_sy = loader.real_module('spowtd.specific_yield')
    sy = real_sy.create_specific_yield_function(dict(yaml.safe_load(params)['specific_yield']))
    probs = []
    levels = [r[0] for r in view]
    meas = [r[1] for r in view]
    if obs:
        if not text.startswith('# Rise curve simulation vector\n'):
            probs.append('header line missing')
        sim = doc
    else:
        if doc[0] != ['Water level, mm', 'Measured storage, mm', 'Simulated storage, mm']:
            probs.append('table header %r' % (doc[0],))
        body = doc[1:]
        if [r[0] for r in body] != levels:
            probs.append('levels column is not the measured curve levels in ascending order')
        if any(abs(a - b) > 1e-9 * max(1.0, abs(b)) for a, b in zip([r[1] for r in body], meas)):
            probs.append('measured column differs from the master curve')
        sim = [r[2] for r in body]
    if len(sim) != len(levels):
        probs.append('%d simulated values for %d levels' % (len(sim), len(levels)))
    else:
        for k in range(len(levels) - 1):
            area = quad(lambda x: float(sy(x)), levels[k], levels[k + 1], limit=200)[0]
            if abs((sim[k + 1] - sim[k]) - area) > 1e-6 * max(1.0, abs(area)):
                probs.append('simulated difference %r vs integral %r between %r and %r' % (sim[k + 1] - sim[k], area, levels[k], levels[k + 1]))
                break
        if abs(np.mean(sim) - np.mean(meas)) > 1e-8 * max(1.0, abs(np.mean(meas))):
            probs.append('mean %r vs measured mean %r' % (np.mean(sim), np.mean(meas)))
    info['problems'] = probs[:5]
    info['levels'] = len(levels)
    return not probs, info


class C17(Check):
    pid = 'C17'

    def run(self):
        quick = self.tier == 'quick'
        self.unit('spowtd.simulate_rise', 'compute_rise_curve', 'simulate_rise')
        self.unit('spowtd.specific_yield', 'create_specific_yield_function', 'SpecificYield.integrate', 'SplineSpecificYield.__init__')
        self.unit('spowtd.spline', 'Spline.integrate', 'Spline.__call__')
        self.unit('spowtd.schema.sql', 'view average_rising_depth')
        n = 3 if quick else 4
        self.bounds = {'grid levels': n, 'grid': 'symbolic increasing reals anywhere relative to the knots (inside, straddling, beyond)',
                       'spline knots': {k: KNOTS[k] for k in ([4] if quick else [4, 5])}, 'knot values': 'symbolic reals',
                       'command': 'planted dataset with symbolic interval offsets (measured curve symbolic), spline parameters, both output forms'}
        self.assumptions = ['FITPACK contract as in C14', 'R-mode', 'PEATCLSM specific yield goes through the same SpecificYield.integrate on an order-1 spline (C16)']
        self.stubs = spline_common.STUBS + ['yaml.dump -> records the object handed over', 'sqlite3 -> vf.symsql']
        self.outside = ['grids of more than %d levels at function level' % n, 'text rendering of YAML floats (C19)']
        for k in ([4] if quick else [4, 5]):
            exp = symx.explore(harness_curve, {'knots': k, 'n': n, 'replay_every': 6}, name='compute_rise_curve[knots=%d,n=%d]' % (k, n),
                               engine_kw={'query_timeout_ms': 60000})
            self.absorb(exp, need_paths=10)
        for obs in (False, True):
            exp = symx.explore(harness_command, {'params': sim_common.SPLINE_PARAMS_LOCAL, 'observations': obs},
                               name='simulate_rise[observations=%s]' % obs, workers=1)
            self.absorb(exp, need_paths=1)
            ok, info = replay_command(sim_common.SPLINE_PARAMS_LOCAL, obs)
            self.witness_replays += 1
            if not ok:
                self.witness_mismatch.append(info)
                self.harness_errors.append('witness replay: real `simulate rise` disagrees with the symbolic verdict: %r' % (info,))
        if not quick:
            ok, info = replay_command(sim_common.PEATCLSM_PARAMS, False)
            self.witness_replays += 1
            if not ok:
                self.witness_mismatch.append(info)
                self.harness_errors.append('witness replay (peatclsm): %r' % (info,))

    def replay(self, failure):
        h = failure['harness']
        m = model_fractions(failure.get('model'))
        if h.startswith('compute_rise_curve'):
            k = int(h.split('knots=')[1].split(',')[0])
            n = int(h.split('n=')[1].rstrip(']'))
            ok, info = replay_curve({'knots': k, 'n': n}, m)
            info['expected'] = failure.get('detail')
            info['label'] = failure.get('label')
            if failure.get('kind') == 'exception':
                return 'real_exception' in info, info
            return not ok, info
        obs = 'True' in h
        ok, info = replay_command(sim_common.SPLINE_PARAMS_LOCAL, obs)
        info['expected'] = failure.get('detail')
        info['label'] = failure.get('label')
        if failure.get('kind') == 'exception':
            return 'error' in info, info
        return not ok, info
