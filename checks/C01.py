"""C01 -- classification completes; storm-rise pairs are one-to-one and overlap."""

from vf import symx
from vf.framework import Check
from checks import classify_fn, classify_db


class C01(Check):
    pid = 'C01'

    def run(self):
        N = 7 if self.tier == "quick" else 9
        self.N = N
        self.bounds = {'samples_per_gap_free_record': N, 'rain': '>= 0 (real)', 'head': 'any real',
                       'thresholds': '> 0 (real)', 'set.pop order': 'all orders (engine choice)'}
        self.unit('spowtd.classify', *classify_fn.UNITS)
        self.assumptions = [
            'R-mode: data and thresholds are mathematical reals; rounding in the two threshold '
            'comparisons is outside (witness replays run the real code in doubles)',
            'function level: one gap-free record of N samples handed to match_storms, jump threshold '
            'already multiplied by the time step',
        ]
        self.stubs = ['numpy -> vf.nplite (element-wise on z3 terms; masks concretised by forking)']
        self.outside = ['records longer than N samples', 'dtype/adaptation errors of real numpy '
                        '(seen only by witness replays)']
        for n in range(2, N + 1):
            exp = symx.explore(classify_fn.harness,
                               {'N': n, 'props': ('C01',), 'seed': self.seed, 'replay_every': 5},
                               name='match_storms[N=%d]' % n)
            self.absorb(exp, need_paths=2)
        # DB level: classify_intervals on symsql from an arbitrary Inv_load state
        self.run_conformance(patterns=3)
        G = 4 if self.tier == 'quick' else 5
        self.db_ctx = {'G': G, 'step_s': 1800, 'props': ('C01',), 'seed': self.seed, 'replay_every': 13}
        self.bounds['DB level'] = {'grid steps': G, 'validity patterns': 'all (gaps, single-sample stretches, closing-instant-only stretch)',
                                   'time step': '1800 s'}
        self.unit('spowtd.classify', *classify_db.UNITS)
        self.stubs.append('sqlite3 -> vf.symsql (schema parsed from /repo/spowtd/schema.sql, statements from the executed code)')
        self.assumptions.append('DB level starts from an arbitrary state satisfying Inv_load (constructor compared with the real '
                                'load on every validity pattern); a dataset without any water level on the grid is outside '
                                '(classify refuses it explicitly)')
        exp = symx.explore(classify_db.harness, self.db_ctx, name='classify_intervals[G=%d]' % G)
        self.absorb(exp, need_paths=2)
        # a stretch boundary between two neighbouring instants that both carry a level (see C03 / dbstate.labels_of)
        for b in ([1, 2] if self.tier == "quick" else list(range(1, G - 1))):
            exp = symx.explore(classify_db.harness, dict(self.db_ctx, brk=(b,)), name='classify_intervals_break%d[G=%d]' % (b, G))
            self.absorb(exp, need_paths=2)

    def replay(self, failure):
        if failure['harness'].startswith('classify_intervals'):
            G = int(failure['harness'].split('=')[1].rstrip(']'))
            ctx = {'G': G, 'step_s': 1800}
            if '_break' in failure['harness']:
                ctx['brk'] = (int(failure['harness'].split('_break')[1].split('[')[0]),)
            return classify_db.replay_failure(ctx, failure)
        N = int(failure['harness'].split('=')[1].rstrip(']'))
        return classify_fn.replay_failure(N, failure)
