"""C01 -- classification completes; storm-rise pairs are one-to-one and overlap."""

from vf import symx
from vf.framework import Check
from checks import classify_fn


class C01(Check):
    pid = 'C01'

    def run(self):
        N = 7 if self.tier == "quick" else 9
        self.N = N
        self.bounds = {'samples_per_gap_free_record': N, 'rain': '>= 0 (real)', 'head': 'any real',
                       'thresholds': '> 0 (real)', 'set.pop order': 'all orders (engine choice)'}
        self.unit('spowtd.classify', *classify_fn.UNITS)
        self.assumptions = [
            'R-mode: data and thresholds are mathematical reals; rounding in the two threshold '
            'comparisons is outside (witness replays run the real code in doubles)',
            'function level: one gap-free record of N samples handed to match_storms, jump threshold '
            'already multiplied by the time step',
        ]
        self.stubs = ['numpy -> vf.nplite (element-wise on z3 terms; masks concretised by forking)']
        self.outside = ['records longer than N samples', 'dtype/adaptation errors of real numpy '
                        '(seen only by witness replays)']
        for n in range(2, N + 1):
            exp = symx.explore(classify_fn.harness,
                               {'N': n, 'props': ('C01',), 'seed': self.seed, 'replay_every': 5},
                               name='match_storms[N=%d]' % n)
            self.absorb(exp, need_paths=2)
        for f in self.failures:
            f['N'] = int(f['harness'].split('=')[1].rstrip(']'))

    def replay(self, failure):
        return classify_fn.replay_failure(failure['N'], failure)
