"""C04 -- interstorm intervals and the per-step flags."""

from vf import symx, loader, nplite
from vf.framework import Check, model_fractions


def declarative_flags(N, jump, rain):
    """(mystery, interstorm) per step from the property's own wording, expanded over N.

    interstorm_i <=> not rain_i, some rain earlier, and no jump at any (rain-free) step
    since the last rainy step; mystery_i <=> not rain_i and not interstorm_i.
    """
    import z3
    zb = symx.zbool
    mystery = []
    inter = []
    for i in range(N):
        cases = []
        # L = index of the last rainy step before i (or none)
        for L in range(-1, i):
            is_last = z3.And(*([zb(rain[L])] if L >= 0 else []) + [z3.Not(zb(rain[k])) for k in range(L + 1, i)])
            if L == -1:
                clean = z3.BoolVal(False)       # no rain recorded earlier
            else:
                clean = z3.And(*[z3.Not(zb(jump[k])) for k in range(L + 1, i + 1)])
            cases.append(z3.And(is_last, clean))
        it = z3.And(z3.Not(zb(rain[i])), z3.Or(*cases))
        inter.append(it)
        mystery.append(z3.And(z3.Not(zb(rain[i])), z3.Not(it)))
    return mystery, inter


def harness_mask(eng, ctx):
    N = ctx['N']
    cl = loader.load('spowtd.classify', 'R')
    jump = [eng.bool('jump%d' % i) for i in range(N)]
    rain = [eng.bool('rain%d' % i) for i in range(N)]
    try:
        mask = cl.get_mystery_jump_mask(nplite.array(jump, dtype=bool), nplite.array(rain, dtype=bool))
    except Exception as e:
        eng.fail_exception(e)
        return
    import z3
    mystery, inter = declarative_flags(N, jump, rain)
    eng.prove(len(mask) == N, 'mask length')
    for i in range(N):
        eng.prove(symx.zbool(mask[i]) == mystery[i], 'C04: unexplained-rise flag', detail='step %d' % i)
    # the interstorm flag as classify_interstorms derives it from the mask
    flags = (~mask) & (~nplite.array(rain, dtype=bool))
    for i in range(N):
        eng.prove(symx.zbool(flags[i]) == inter[i], 'C04: interstorm flag', detail='step %d' % i)
    try:
        masks = list(cl.get_true_interval_masks(flags))
    except Exception as e:
        eng.fail_exception(e)
        return
    runs = []
    for m in masks:
        idx = [i for i in range(N) if bool(m[i])]
        eng.prove(len(idx) >= 1 and idx == list(range(idx[0], idx[-1] + 1)), 'C04: run is contiguous')
        runs.append((idx[0], idx[-1]))
    conc = [bool(flags[i]) for i in range(N)]
    want = []
    i = 0
    while i < N:
        if conc[i]:
            j = i
            while j + 1 < N and conc[j + 1]:
                j += 1
            want.append((i, j))
            i = j + 1
        else:
            i += 1
    eng.prove(runs == want, 'C04: runs are exactly the maximal True runs', detail='%r vs %r' % (runs, want))
    eng.note({'t': 'reached'})
    if ctx.get('replay') and (hash(tuple(conc)) + ctx.get('seed', 0)) % 9 == 0:
        w = eng.witness()
        if w is not None:
            ok, info = replay_mask(N, w, expect=[bool(mask[i]) for i in range(N)], runs=want)
            eng.note({'t': 'witness', 'n': 1})
            if not ok:
                eng.note({'t': 'witness_mismatch', 'v': info})
            elif len(want) >= 2:
                eng.note({'t': 'sample', 'v': info})


def replay_mask(N, model, expect=None, runs=None, label=None):
    import numpy as np
    real = loader.real_module('spowtd.classify')
    jump = np.array([bool(model.get('jump%d' % i, False)) for i in range(N)], dtype=bool)
    rain = np.array([bool(model.get('rain%d' % i, False)) for i in range(N)], dtype=bool)
    info = {'is_jump': jump.tolist(), 'is_raining': rain.tolist()}
    try:
        mask = real.get_mystery_jump_mask(jump, rain)
        flags = (~mask) & (~rain)
        masks = [m.tolist() for m in real.get_true_interval_masks(flags)]
    except Exception as e:
        info['real_exception'] = '%s: %s' % (type(e).__name__, e)
        info['trace'] = symx.site_of_exception(e)
        return False, info
    info['mystery'] = mask.tolist()
    got_runs = []
    for m in masks:
        idx = [i for i, b in enumerate(m) if b]
        got_runs.append((idx[0], idx[-1]))
    info['runs'] = got_runs
    if expect is not None and mask.tolist() != expect:
        return False, info
    if runs is not None and got_runs != runs:
        return False, info
    return True, info


def concrete_decl(N, jump, rain):
    mystery, inter = [], []
    for i in range(N):
        L = max([k for k in range(i) if rain[k]], default=-1)
        clean = L >= 0 and not any(jump[k] for k in range(L + 1, i + 1))
        it = (not rain[i]) and clean
        inter.append(it)
        mystery.append((not rain[i]) and not it)
    return mystery, inter


class C04(Check):
    pid = 'C04'

    def run(self):
        N = 7 if self.tier == 'quick' else 9
        self.bounds = {'boolean vectors (is_jump, is_raining)': 'every pair of length 1..%d' % N}
        self.unit('spowtd.classify', 'get_mystery_jump_mask', 'get_true_interval_masks', 'assert_equal')
        self.assumptions = ['function level: the two flag vectors are arbitrary booleans; the rate computation and '
                            'the database writes of classify_interstorms are covered by the DB-level harness when present']
        self.stubs = ['numpy -> vf.nplite']
        self.outside = ['vectors longer than N']
        for n in range(1, N + 1):
            exp = symx.explore(harness_mask, {'N': n, 'seed': self.seed, 'replay': True}, name='mystery_mask[N=%d]' % n)
            self.absorb(exp, need_paths=2)
        from checks import classify_db
        self.run_conformance(patterns=3)
        G = 4 if self.tier == 'quick' else 5
        self.bounds['DB level'] = {'grid steps': G, 'validity patterns': 'all', 'time step': '1800 s'}
        self.unit('spowtd.classify', *classify_db.UNITS)
        self.stubs.append('sqlite3 -> vf.symsql')
        self.assumptions.append('DB level starts from an arbitrary state satisfying Inv_load; rate > threshold read over the reals')
        exp = symx.explore(classify_db.harness, {'G': G, 'step_s': 1800, 'props': ('C04',), 'seed': self.seed, 'replay_every': 13},
                           name='classify_intervals[G=%d]' % G)
        self.absorb(exp, need_paths=2)
        # time steps that do not divide an hour (45 min) / longer than an hour (2 h)
        for st, g in ((2700, 3), (7200, 3)) if self.tier == 'quick' else ((2700, 4), (7200, 4), (1200, 4)):
            exp = symx.explore(classify_db.harness, {'G': g, 'step_s': st, 'props': ('C04',), 'seed': self.seed, 'replay_every': 13, 'max_gaps': 1},
                               name='classify_intervals_step%d[G=%d]' % (st, g))
            self.absorb(exp, need_paths=2)
        self.bounds['DB level']['other time steps'] = '2700 s, 7200 s (G=3)' if self.tier == 'quick' else '1200, 2700, 7200 s (G=4)'
        # a stretch boundary between two neighbouring instants that both carry a level (see C03 / dbstate.labels_of)
        breaks = [1, 2] if self.tier == "quick" else list(range(1, G - 1))
        self.bounds['DB level']['stretch boundaries without a NULL instant'] = 'one, after instant %s' % breaks
        for b in breaks:
            exp = symx.explore(classify_db.harness, {'G': G, 'step_s': 1800, 'props': ('C04',), 'seed': self.seed,
                                                     'replay_every': 13, 'brk': (b,)},
                               name='classify_intervals_break%d[G=%d]' % (b, G))
            self.absorb(exp, need_paths=2)

    def replay(self, failure):
        if failure['harness'].startswith('classify_intervals'):
            from checks import classify_db
            G = int(failure['harness'].split('=')[1].rstrip(']'))
            st = 1800
            if '_step' in failure['harness']:
                st = int(failure['harness'].split('_step')[1].split('[')[0])
            ctx = {'G': G, 'step_s': st}
            if '_break' in failure['harness']:
                ctx['brk'] = (int(failure['harness'].split('_break')[1].split('[')[0]),)
            return classify_db.replay_failure(ctx, failure)
        N = int(failure['harness'].split('=')[1].rstrip(']'))
        m = model_fractions(failure.get('model'))
        import numpy as np
        real = loader.real_module('spowtd.classify')
        jump = [bool(m.get('jump%d' % i, False)) for i in range(N)]
        rain = [bool(m.get('rain%d' % i, False)) for i in range(N)]
        info = {'entry': 'spowtd.classify.get_mystery_jump_mask / get_true_interval_masks',
                'is_jump': jump, 'is_raining': rain, 'expected': failure.get('detail'), 'label': failure.get('label')}
        try:
            mask = real.get_mystery_jump_mask(np.array(jump, dtype=bool), np.array(rain, dtype=bool))
            flags = (~mask) & (~np.array(rain, dtype=bool))
            masks = [mm.tolist() for mm in real.get_true_interval_masks(flags)]
        except Exception as e:
            info['observed'] = '%s: %s' % (type(e).__name__, e)
            return (failure.get('kind') == 'exception' and failure['detail'].startswith(type(e).__name__)), info
        if failure.get('kind') == 'exception':
            info['observed'] = 'no exception'
            return False, info
        mystery, inter = concrete_decl(N, jump, rain)
        runs = []
        for mm in masks:
            idx = [i for i, b in enumerate(mm) if b]
            runs.append((idx[0], idx[-1]))
        want = []
        i = 0
        fl = flags.tolist()
        while i < N:
            if fl[i]:
                j = i
                while j + 1 < N and fl[j + 1]:
                    j += 1
                want.append((i, j))
                i = j + 1
            else:
                i += 1
        info['observed'] = {'mystery': mask.tolist(), 'interstorm': fl, 'runs': runs,
                            'declarative_mystery': mystery, 'declarative_interstorm': inter}
        bad = mask.tolist() != mystery or fl != inter or runs != want
        return bad, info
