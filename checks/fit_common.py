"""Shared loading of fit_offsets / regrid with their library contracts bound."""
from vf import loader, libstubs

REGRID_BIND = {'interp1d': libstubs.interp1d, 'brentq': libstubs.brentq}
FIT_BIND = {'linalg_mod': libstubs.linalg}

_CACHE = {}


def load_regrid():
    if 'rg' not in _CACHE:
        _CACHE['rg'] = loader.load('spowtd.regrid', 'R', bindings=REGRID_BIND)
    return _CACHE['rg']


def load_fit():
    if 'fo' not in _CACHE:
        _CACHE['fo'] = loader.load('spowtd.fit_offsets', 'R', bindings=FIT_BIND,
                                   submodules={'spowtd.regrid': load_regrid()})
    return _CACHE['fo']


STUBS = ['numpy -> vf.nplite',
         'numpy.linalg.solve -> exact Gauss-Jordan elimination on the (concrete rational) normal matrix with a symbolic right-hand side; LinAlgError iff singular',
         'scipy.interpolate.interp1d(linear) -> piecewise-linear function',
         'scipy.optimize.brentq -> sign check; root strictly inside; with concrete end values the explicit chord root, returned only after z3 proves it is the unique root']
