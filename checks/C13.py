"""C13 -- every master-curve row traces back to a classified interval and its data
(and, at the level of the stored tables, C05: residuals of every interval against the
master curve sum to zero).

The real classify -> set-zeta-grid -> rise / recession run on symsql on a record whose
water levels are  Z_i + d_i  (Z_i a concrete pattern, d_i a symbolic real in [0, 1/8) of
a millimetre, d_i = 0 for on-grid samples) and whose storm intensities are symbolic, so
that control flow is fixed by the pattern while every stored number is a term over the
data.  An independent reference, written here from the property text, recomputes from
the classified intervals only what each row must be.
"""

import math
from fractions import Fraction

import z3

from vf import symx, symsql, loader, nplite, libstubs, pipeline, synth
from vf.framework import Check, model_fractions
from checks import dbstate

PATTERNS = {
    'A': dict(recessions=((1, 5), (0, 6), (2, 5)), storm_steps=2),
    'B': dict(recessions=((2, 4), (0, 7)), storm_steps=1),
    'C': dict(recessions=((0, 5), (1, 4), (0, 6)), storm_steps=3),
    # D: the second rise (5 -> 7 mm) crosses no level of a 4 mm grid and is not the last one
    'D': dict(recessions=((0, 6), (2, 4), (0, 6)), storm_steps=1),
}


def small_master(tau):
    """Recession master curve with a plateau and a small bump (non-monotone pieces)."""
    table = [Fraction(12), Fraction(9), Fraction(7), Fraction(6), Fraction(6), Fraction(13, 2), Fraction(5), Fraction(4),
             Fraction(7, 2), Fraction(3), Fraction(5, 2), Fraction(2)]
    tau = Fraction(tau)
    i = int(tau)
    if i >= len(table) - 1:
        return table[-1] - (tau - (len(table) - 1)) / 2
    return table[i] + (table[i + 1] - table[i]) * (tau - i)


def make_record(eng, ctx):
    pat = PATTERNS[ctx['pattern']]
    rec = synth.planted_record(master=small_master, sy=Fraction(1, 2), step_s=3600, lead_dry=1, drizzle_mm_h=Fraction(1, 8), **pat)
    n = len(rec['zeta'])
    mode = ctx['ongrid']          # which samples sit exactly on their pattern value
    zeta = []
    for i, Z in enumerate(rec['zeta']):
        exact = (mode == 'all') or (mode == 'alternate' and i % 2 == 0)
        if exact:
            zeta.append(Z)
        else:
            d = eng.real('d%d' % i)
            eng.assume(d > 0)
            eng.assume(d < Fraction(1, 8))
            zeta.append(Z + d)
    rain = list(rec['rain'])
    for ev in rec['events']:
        if ev['kind'] == 'storm':
            for k in range(ev['steps']):
                i = ev['first_step'] + k
                v = eng.real('rain%d' % i)
                eng.assume(v > 1)
                eng.assume(v < 64)
                rain[i] = v
    return rec, zeta, rain


def run_workflow(eng, ctx, which):
    m = pipeline.sym_modules('R')
    rec, zeta, rain = make_record(eng, ctx)
    G = len(rain)
    epochs = list(rec['epochs']) + [rec['epochs'][-1] + rec['step_s']]
    conn = symsql.Connection()
    valid = [True] * (G + 1)
    for i in ctx.get('gap', ()):
        valid[i] = False          # a hole in the water-level record (two data intervals)
    dbstate.build(conn, epochs, valid, rain[:G], rec['et'][:G], zeta + [zeta[-1]], rec['step_s'])
    step = Fraction(ctx['grid'])
    m['classify'].classify_intervals(conn, Fraction(1), Fraction(1, 2))
    m['zeta_grid'].populate_zeta_grid(conn, step)
    conn.commit()
    ref = ctx.get('reference')
    if which == 'rise':
        m['rise'].find_rise_offsets(conn, ref)
    else:
        m['recession'].find_recession_offsets(conn, ref)
    if ctx.get('second_grid'):
        # a later attempt to set another grid step: refused, or else the curves must not be left
        # on levels that are no longer grid levels
        try:
            m['zeta_grid'].populate_zeta_grid(conn, Fraction(ctx['second_grid']))
            conn.commit()
        except Exception:
            conn.rollback()
    return conn, rec, zeta, rain, epochs, step


def cell_levels(a, b, step):
    """Integers m with min <= m*step < max for symbolic a, b (decided through the engine)."""
    lo, hi = (a, b) if bool(a <= b) else (b, a)
    out = []
    m = int(symx.wrap(z3.simplify(z3.ToInt(libstubs._zr(lo / step))))) if isinstance(lo, symx.Sym) else math.floor(lo / step)
    m -= 1
    while True:
        if bool(m * step >= hi):
            break
        if bool(m * step >= lo):
            out.append(m)
        m += 1
        if len(out) > 200:
            raise symx.ShimGap('too many levels')
    return out


def harness(eng, ctx):
    nplite.set_float_mode('R')
    which = ctx['which']
    eng.deterministic_pop = True          # order independence of the matching is C02's business
    try:
        conn, rec, zeta, rain, epochs, step = run_workflow(eng, ctx, which)
    except KeyError as e:
        if ctx.get('reference') is not None:
            # a multiple of the step that is not a level of the curve on this path: outside (C09)
            raise symx.PathAbort('reference level not in the curve')
        eng.fail_exception(e, label='C13: workflow fails on the patterned record')
        return
    except ValueError as e:
        if 'max()' in str(e):
            # the main body is a single interval: known finding recorded under C08
            raise symx.PathAbort('single-interval main body (C08 finding)')
        eng.fail_exception(e, label='C13: workflow fails on the patterned record')
        return
    except Exception as e:
        eng.fail_exception(e, label='C13: workflow fails on the patterned record')
        return
    db = conn.db
    idx = {t: i for i, t in enumerate(epochs)}
    step_h = Fraction(rec['step_s'], 3600)
    dz = {r['zeta_number'] for r in db.tables['discrete_zeta'].rows}
    # grid covers the observed range: every multiple m with min <= m*step < max
    zs = [z for i, z in enumerate(zeta) if i not in ctx.get('gap', ())]
    zmin = zs[0]
    zmax = zs[0]
    for v in zs[1:]:
        if bool(v < zmin):
            zmin = v
        if bool(v > zmax):
            zmax = v
    want_grid = set(cell_levels(zmin, zmax, step))
    eng.prove(want_grid <= dz, 'C13: the water-level grid covers the whole observed range',
              detail='missing %r' % sorted(want_grid - dz))
    storms = {idx[r['start_epoch']]: idx[r['thru_epoch']] for r in db.tables['storm'].rows}
    pair = {idx[r['interval_start_epoch']]: idx[r['storm_start_epoch']] for r in db.tables['zeta_interval_storm'].rows}
    zint = {(idx[r['start_epoch']], r['interval_type']): idx[r['thru_epoch']] for r in db.tables['zeta_interval'].rows}
    lazy = list(eng.lazy)
    if which == 'rise':
        ivals = db.tables['rising_interval'].rows
        rows = db.tables['rising_interval_zeta'].rows
        off = {idx[int_epoch(r['start_epoch'])]: r['rain_depth_offset_mm'] for r in ivals}
        eng.prove(len(off) >= 2, 'C13: planted record yields a rise curve (harness sanity)')
        for a in off:
            eng.prove((a, 'storm') in zint and a in pair, 'C13: every interval of the rise curve is a matched rise', detail='sample %d' % a)
        by_interval = {}
        for r in rows:
            a = idx[int_epoch(r['start_epoch'])]
            m = int(r['zeta_number'])
            v = r['mean_crossing_depth_mm']
            by_interval.setdefault(a, {})[m] = v
            eng.prove(a in off, 'C13: crossing row belongs to an interval of the curve')
            eng.prove(m in dz, 'C13: every level of the curve belongs to the water-level grid', detail='level %d' % m)
            if (a, 'storm') in zint and a in pair:
                b = zint[(a, 'storm')]
                s0 = pair[a]
                depth = sum((rain[i] * step_h for i in range(s0, storms[s0])), Fraction(0))
                zi, zf = zeta[a], zeta[b]
                # straight segment from (0, z_init) to (depth of ITS storm, z_final)
                eng.prove(v * (zf - zi) == (m * step - zi) * depth,
                          'C13: rise crossing lies on the segment from zero depth at its initial level to its storm\'s depth at its final level',
                          detail='rise at sample %d level %d' % (a, m))
        for a in off:
            if (a, 'storm') in zint:
                want = set(cell_levels(zeta[a], zeta[zint[(a, 'storm')]], step))
                got = set(by_interval.get(a, {}))
                eng.prove(got <= want, 'C13: rise reports only levels between its initial and final level', detail='%r vs %r' % (sorted(got), sorted(want)))
        table_off, table_cross = off, by_interval
    else:
        ivals = db.tables['recession_interval'].rows
        rows = db.tables['recession_interval_zeta'].rows
        off = {idx[int_epoch(r['start_epoch'])]: r['time_offset_s'] for r in ivals}
        eng.prove(len(off) >= 2, 'C13: planted record yields a recession curve (harness sanity)')
        for a in off:
            eng.prove((a, 'interstorm') in zint, 'C13: every interval of the recession curve is an interstorm interval', detail='sample %d' % a)
        by_interval = {}
        for r in rows:
            a = idx[int_epoch(r['start_epoch'])]
            m = int(r['zeta_number'])
            v = r['mean_crossing_time']
            by_interval.setdefault(a, {})[m] = v
            eng.prove(a in off, 'C13: crossing row belongs to an interval of the curve')
            eng.prove(m in dz, 'C13: every level of the curve belongs to the water-level grid', detail='level %d' % m)
        for a in off:
            if (a, 'interstorm') not in zint:
                continue
            b = zint[(a, 'interstorm')]
            # reference: for every pair of consecutive samples of THIS interval and every level
            # between them (lower included, upper excluded) one crossing on the chord; the row
            # holds the mean of the crossings of that level, time counted from the interval start
            want = {}
            for i in range(a, b):
                for m in cell_levels(zeta[i], zeta[i + 1], step):
                    t0 = (i - a) * rec['step_s']
                    rho = symx.SymReal(z3.Real('ref_cross!%d!%d!%d' % (a, i, m)))
                    want.setdefault(m, []).append((rho, i, t0))
            got = by_interval.get(a, {})
            eng.prove(set(got) <= set(want), 'C13: recession reports only levels crossed by its own samples',
                      detail='interval %d: %r vs %r' % (a, sorted(got), sorted(want)))
            for m, v in got.items():
                if m not in want:
                    continue
                hyp = []
                tot = Fraction(0)
                for rho, i, t0 in want[m]:
                    dt = rec['step_s']
                    hyp.append(symx.zbool((rho - t0) * (zeta[i + 1] - zeta[i]) == (m * step - zeta[i]) * dt))
                    hyp.append(symx.zbool(rho >= t0))
                    hyp.append(symx.zbool(rho <= t0 + dt))
                    tot = tot + rho
                eng.prove(z3.Implies(z3.And(*hyp), symx.zbool(v * len(want[m]) == tot)),
                          'C13: recession crossing value is the mean crossing time of that level within the interval',
                          detail='interval %d level %d (%d crossings)' % (a, m, len(want[m])))
        table_off, table_cross = off, by_interval
    # C05 at table level: residuals of every interval against the master curve sum to zero
    levels = {}
    props = ctx.get('props', ('C13', 'C05'))
    for a, d in table_cross.items():
        for m, v in d.items():
            if a in table_off:
                levels.setdefault(m, {})[a] = table_off[a] + v
    for a in table_off:
        acc = Fraction(0)
        for m, d in levels.items():
            if a in d:
                mean = sum((d[k] for k in sorted(d)), Fraction(0)) / len(d)
                acc = acc + (d[a] - mean)
        if 'C05' in props:
            eng.prove(acc == 0, 'C05: residuals of every stored interval against the stored master curve sum to zero', detail='interval %d' % a)
    # and the views agree with the tables
    view = 'average_rising_depth' if which == 'rise' else 'average_recession_time'
    vrows = conn.execute('SELECT * FROM %s' % view).fetchall()
    vmap = {r[0]: r[1] for r in vrows}
    for m, d in levels.items():
        mean = sum((d[k] for k in sorted(d)), Fraction(0)) / len(d)
        eng.prove(vmap.get(m * step) == mean if (m * step) in vmap else False, 'C13: master-curve view = mean of offset + crossing over the intervals of that level',
                  detail='level %d' % m)
    eng.note({'t': 'reached'})
    eng.note({'t': 'sample', 'v': {'pattern': ctx['pattern'], 'which': which, 'grid_step': str(step), 'intervals': len(table_off),
                                   'crossing_rows': len(rows), 'reference': str(ctx.get('reference'))}})


def int_epoch(v):
    if isinstance(v, Fraction):
        return int(v)
    return int(v)


def replay_real(ctx, m, which):
    """The real CLI on files built from the model; the same oracle, concretely."""
    import numpy as np
    pat = PATTERNS[ctx['pattern']]
    rec = synth.planted_record(master=small_master, sy=Fraction(1, 2), step_s=3600, lead_dry=1, drizzle_mm_h=Fraction(1, 8), **pat)
    zeta = [Z + Fraction(m.get('d%d' % i, 0)) for i, Z in enumerate(rec['zeta'])]
    rain = [Fraction(m.get('rain%d' % i, r)) for i, r in enumerate(rec['rain'])]
    rec2 = dict(rec, zeta=zeta, rain=rain)
    step = Fraction(ctx['grid'])
    info = {'pattern': ctx['pattern'], 'grid_step': float(step), 'which': which, 'reference': ctx.get('reference')}
    with pipeline.RealRun(synth.to_csv_texts(rec2, drop_level_rows=tuple(ctx.get('gap', ())))) as rr:
        ref = ctx.get('reference')
        errs = [rr.load(), rr.classify(1, 0.5), rr.zeta_grid(float(step)),
                (rr.rise if which == 'rise' else rr.recession)(None if ref is None else repr(float(ref)))]
        if any(e is not None for e in errs):
            info['error'] = [repr(e) for e in errs if e is not None][0]
            return False, info
        if ctx.get('second_grid'):
            info['second set-zeta-grid'] = repr(rr.zeta_grid(float(Fraction(ctx['second_grid']))))
        epochs = rec['epochs']
        idx = {t: i for i, t in enumerate(epochs)}
        dzs = {r[0] for r in rr.query('SELECT zeta_number FROM discrete_zeta')}
        probs = []
        zf = [float(z) for z in zeta]
        present = [z for i, z in enumerate(zeta) if i not in ctx.get('gap', ())]
        lo, hi = min(present), max(present)
        want_grid = set(range(math.ceil(lo / step), math.ceil(hi / step)))
        if not want_grid <= dzs:
            probs.append('grid misses levels %r' % sorted(want_grid - dzs))
        if which == 'rise':
            offs = dict(rr.query('SELECT start_epoch, rain_depth_offset_mm FROM rising_interval'))
            rows = rr.query('SELECT start_epoch, zeta_number, mean_crossing_depth_mm FROM rising_interval_zeta')
            pairs = dict(rr.query('SELECT interval_start_epoch, storm_start_epoch FROM zeta_interval_storm'))
            thru = dict(rr.query("SELECT start_epoch, thru_epoch FROM zeta_interval WHERE interval_type='storm'"))
            sthru = dict(rr.query('SELECT start_epoch, thru_epoch FROM storm'))
            for a, mm, v in rows:
                if a not in offs or a not in pairs or a not in thru:
                    probs.append('row of interval %r is not a matched rise of the curve' % a)
                    continue
                if mm not in dzs:
                    probs.append('level %d not in the grid' % mm)
                s0 = pairs[a]
                depth = sum(float(rain[i]) for i in range(idx[s0], idx[sthru[s0]]))
                zi, zfin = zf[idx[a]], zf[idx[thru[a]]]
                want = (mm * float(step) - zi) * depth / (zfin - zi)
                if abs(v - want) > 1e-7 * max(1.0, abs(want)):
                    probs.append('rise %d level %d: %r, segment gives %r' % (idx[a], mm, v, want))
        else:
            offs = dict(rr.query('SELECT start_epoch, time_offset_s FROM recession_interval'))
            rows = rr.query('SELECT start_epoch, zeta_number, mean_crossing_time FROM recession_interval_zeta')
            thru = dict(rr.query("SELECT start_epoch, thru_epoch FROM zeta_interval WHERE interval_type='interstorm'"))
            for a, mm, v in rows:
                if a not in offs or a not in thru:
                    probs.append('row of interval %r is not an interstorm interval of the curve' % a)
                    continue
                if mm not in dzs:
                    probs.append('level %d not in the grid' % mm)
                ia, ib = idx[a], idx[thru[a]]
                cr = []
                for i in range(ia, ib):
                    y0, y1 = zeta[i] / step, zeta[i + 1] / step
                    if y0 == y1:
                        continue
                    if min(y0, y1) <= mm < max(y0, y1):
                        cr.append(float((i - ia) * 3600 + (mm - y0) * 3600 / (y1 - y0)))
                if not cr:
                    probs.append('interval %d reports level %d which its samples do not cross' % (ia, mm))
                elif abs(v - np.mean(cr)) > 1e-6 * max(1.0, abs(np.mean(cr))):
                    probs.append('interval %d level %d: %r, own samples give %r' % (ia, mm, v, float(np.mean(cr))))
        # stationarity on the stored tables
        lv = {}
        for a, mm, v in rows:
            if a in offs:
                lv.setdefault(mm, {})[a] = offs[a] + v
        for a in offs:
            acc = sum(d[a] - np.mean(list(d.values())) for d in lv.values() if a in d)
            scale = max([1.0] + [abs(x) for d in lv.values() for x in d.values()])
            if abs(acc) > 1e-7 * scale:
                probs.append('residuals of interval %d sum to %r' % (idx[a], acc))
        info['problems'] = probs[:6]
        info['rows'] = len(rows)
        if ctx.get('_levels'):
            info['levels'] = sorted({r[1] for r in rows if sum(1 for q in rows if q[1] == r[1]) > 1})
    return not probs, info


_REF = {}


def config_name(c):
    return 'curve[%s,%s,grid=%s,ongrid=%s%s%s]' % (c['which'], c['pattern'], c['grid'], c['ongrid'],
                                                  ',ref' if c.get('reference') is not None else '',
                                                  (',gap=%s' % '+'.join(map(str, c['gap'])) if c.get('gap') else '') +
                                                  (',regrid=%s' % c['second_grid'] if c.get('second_grid') else ''))


def config_from_name(h):
    inner = h.split('[')[1].rstrip(']').split(',')
    c = {'which': inner[0], 'pattern': inner[1], 'grid': inner[2].split('=')[1], 'ongrid': inner[3].split('=')[1]}
    for extra in inner[4:]:
        if extra == 'ref':
            c['reference'] = pick_reference(c['which'])
        elif extra.startswith('gap='):
            c['gap'] = tuple(int(x) for x in extra[4:].split('+'))
        elif extra.startswith('regrid='):
            c['second_grid'] = extra[7:]
    return c


def pick_reference(which):
    """A level in the middle of the curve of pattern A at grid step 1 (from a real CLI run)."""
    if which not in _REF:
        ok, info = replay_real({'pattern': 'A', 'grid': '1', 'ongrid': 'none', 'which': which, '_levels': True}, {}, which)
        lv = info.get('levels') or [0]
        _REF[which] = Fraction(lv[len(lv) // 2])
    return _REF[which]


class C13(Check):
    pid = 'C13'

    def configs(self):
        quick = self.tier == 'quick'
        out = []

        def add(p, g, md, kinds=('rise', 'recession')):
            for which in kinds:
                out.append({'pattern': p, 'grid': g, 'ongrid': md, 'which': which})
        if quick:
            add('A', '1', 'none')
            add('A', '1', 'alternate')
            add('A', '1/2', 'none', ('rise',))
        else:
            for md in ('none', 'alternate', 'all'):
                add('A', '1', md)
            for md in ('none', 'alternate'):
                add('A', '1/2', md)
            add('A', '2', 'none', ('rise',))        # (recessions share no 2 mm level: single-interval body, C08 finding)
            add('C', '1', 'none')
            add('B', '1', 'none', ('rise',))
        for which in ('rise', 'recession'):
            out.append({'pattern': 'A', 'grid': '1', 'ongrid': 'all', 'which': which, 'reference': pick_reference(which)})
        # a hole in the water-level record in the first recession (samples 6, 7), a later rise follows
        out.append({'pattern': 'A', 'grid': '1', 'ongrid': 'all', 'which': 'rise', 'gap': (6, 7)})
        # a coarse grid and a rise that stays between two grid levels
        out.append({'pattern': 'D', 'grid': '4', 'ongrid': 'all', 'which': 'rise'})
        # set-zeta-grid attempted again with another step after the curve was assembled
        out.append({'pattern': 'A', 'grid': '1', 'ongrid': 'all', 'which': 'rise', 'second_grid': '5'})
        if not quick:
            out.append({'pattern': 'A', 'grid': '1', 'ongrid': 'none', 'which': 'recession', 'gap': (6, 7)})
            out.append({'pattern': 'D', 'grid': '4', 'ongrid': 'none', 'which': 'rise'})
        for c in out:
            c.setdefault('props', ('C13',))
        return out

    def run(self):
        self.unit('spowtd.rise', 'compute_rise_offsets', 'find_rise_offsets')
        self.unit('spowtd.recession', 'compute_offsets', 'find_recession_offsets')
        self.unit('spowtd.zeta_grid', 'populate_zeta_grid')
        self.unit('spowtd.fit_offsets', 'get_series_time_offsets', 'build_head_mapping', 'find_offsets')
        self.unit('spowtd.regrid', 'regrid')
        self.unit('spowtd.schema.sql', 'master-curve tables, views average_rising_depth / average_recession_time / storm_total_rain_depth')
        cfgs = self.configs()
        self.bounds = {'record patterns': {k: v for k, v in PATTERNS.items()}, 'water level': 'pattern value + symbolic d in (0, 1/8) mm, or exactly on the pattern value',
                       'storm intensities': 'symbolic in (1, 64) mm/h', 'grid steps': sorted({c['grid'] for c in cfgs}), 'configurations': len(cfgs)}
        self.assumptions = ['R-mode', 'control flow is fixed by the concrete level pattern; all stored numbers are terms over the symbolic data',
                            'single-interval levels are dropped from the curve by the code (known behaviour, see C08 finding); the oracle checks the rows that are present '
                            'and that no foreign level/interval appears']
        self.stubs = ['sqlite3 -> vf.symsql (foreign keys off, as in the real commands)', 'numpy -> vf.nplite', 'interp1d / brentq (root strictly inside, chord equation as lazy fact) / linalg.solve']
        self.outside = ['records other than the %d patterns listed under bounds' % len(PATTERNS), 'more than one hole in the level record (one hole is a configuration; arbitrary gap layouts are the C01/C03 DB harness)']
        self.run_conformance(patterns=None)
        for c in cfgs:
            name = config_name(c)
            exp = symx.explore(harness, c, name=name, engine_kw={'query_timeout_ms': 60000}, wall_limit_s=1500)
            self.absorb(exp, need_paths=1)
        for c in cfgs[:4] + cfgs[-2:]:
            ok, info = replay_real(c, {}, c['which'])
            self.witness_replays += 1
            if not ok:
                self.witness_mismatch.append(info)
                self.harness_errors.append('witness replay: real CLI disagrees with the symbolic verdict: %r' % (info,))
            elif len(self.samples) < 3:
                self.samples.append(info)
        self._cfg_by_name = {}

    def replay(self, failure):
        c = config_from_name(failure['harness'])
        m = model_fractions(failure.get('model'))
        ok, info = replay_real(c, m, c['which'])
        info['expected'] = failure.get('detail')
        info['label'] = failure.get('label')
        if failure.get('kind') == 'exception':
            return 'error' in info, info
        return not ok, info
