"""C15 -- spline transmissivity is the minimum plus the integral of conductivity."""

from fractions import Fraction

import z3

from vf import symx, loader, nplite, libstubs
from vf.framework import Check, model_fractions
from checks import spline_common


def make_T(eng, ctx):
    n = ctx['knots']
    tm = spline_common.load_transmissivity('R')
    zs = [eng.real('z%d' % i) for i in range(n)]
    for a, b in zip(zs, zs[1:]):
        eng.assume(a < b)
    Ks = [eng.real('K%d' % i) for i in range(n)]
    for k in Ks:
        eng.assume(k > 0)
    tmin = eng.real('T_min')
    eng.assume(tmin > 0)
    T = tm.SplineTransmissivity(list(zs), list(Ks), tmin)
    return tm, T, zs, Ks, tmin


def ref_log_conductivity(zs, Ks, xi):
    """Linear interpolant of (z_i, log K_i) at xi (z_0 <= xi <= z_n), independent of the code."""
    logs = [libstubs.sym_log(k) for k in Ks]
    for j in range(len(zs) - 1):
        if xi <= zs[j + 1]:
            if xi == zs[j]:
                return logs[j]
            if xi == zs[j + 1]:
                return logs[j + 1]
            return logs[j] + (logs[j + 1] - logs[j]) * ((xi - zs[j]) / (zs[j + 1] - zs[j]))
    return logs[-1]


def ref_layer_integral(zs, Ks, i):
    """Exact integral of exp(linear interpolant of log K) over the whole layer [z_i, z_{i+1}]."""
    dz = zs[i + 1] - zs[i]
    if Ks[i] == Ks[i + 1]:
        return Ks[i] * dz
    return (Ks[i + 1] - Ks[i]) * dz / (libstubs.sym_log(Ks[i + 1]) - libstubs.sym_log(Ks[i]))


def harness(eng, ctx):
    tm, T, zs, Ks, tmin = make_T(eng, ctx)
    w = eng.real('w')
    eng.assume(w <= zs[-1])
    eng.__dict__['quad_log'] = []
    try:
        val = T(w)
    except Exception as e:
        eng.fail_exception(e, label='C15: transmissivity fails at a level not above the highest knot')
        return
    log = eng.quad_log
    if w <= zs[0]:
        eng.prove(val == tmin, 'C15: equals the minimum at and below the lowest knot')
        eng.prove(len(log) == 0, 'C15: no integral below the lowest knot')
    else:
        if not eng.prove(len(log) == 1, 'C15: exactly one integral is taken'):
            return
        rec = log[0]
        # The integral may start at any knot j at or below the level, provided the whole layers below that
        # knot are added in closed form (integral of exp(linear) over a layer = logarithmic mean of the two
        # conductivities times the thickness).  On the code as it stands j is always 0.
        j = None
        for i in range(len(zs)):
            if rec.a == zs[i]:
                j = i
                break
        if j is None or not (zs[j] <= w):
            eng.prove(False, 'C15: integral starts at the lowest knot', detail='lower limit is not a knot at or below the level')
            return
        base = tmin
        for i in range(j):
            base = base + ref_layer_integral(zs, Ks, i)
        eng.prove(rec.b == w, 'C15: integral ends at the water level')
        eng.prove(val == base + rec.result, 'C15: transmissivity = minimum + integral',
                  detail='integral taken from knot %d; whole layers below it in closed form' % j)
        # integrand at the probe point = exp(linear interpolant of log K)
        want = libstubs.sym_exp(ref_log_conductivity(zs, Ks, rec.xi))
        eng.prove(rec.value == want, 'C15: integrand is exp of the piecewise-linear log-conductivity',
                  detail='probe point between the limits')
        eng.prove(rec.value > 0, 'C15: conductivity positive (so transmissivity never decreases)')
    # scalar and array arguments agree (same uninterpreted integral of the same limits)
    n_before = len(eng.quad_log)
    try:
        arr = T(nplite.array([w, zs[0]]))
    except Exception as e:
        eng.fail_exception(e, label='C15: array argument fails')
        return
    eng.prove(arr[0] == val, 'C15: array and scalar arguments give the same value')
    eng.prove(arr[1] == tmin, 'C15: array element at the lowest knot is the minimum')
    # an array that is neither ascending nor descending: every element is the value of its own level
    try:
        arr3 = T(nplite.array([zs[0], w, zs[0] - 5]))
    except Exception as e:
        eng.fail_exception(e, label='C15: array argument fails')
        return
    eng.prove(arr3[0] == tmin, 'C15: each element of an unordered array is the value at its own level', detail='array [lowest knot, w, lowest knot - 5], element 0')
    eng.prove(arr3[1] == val, 'C15: each element of an unordered array is the value at its own level', detail='array [lowest knot, w, lowest knot - 5], element 1')
    eng.prove(arr3[2] == tmin, 'C15: each element of an unordered array is the value at its own level', detail='array [lowest knot, w, lowest knot - 5], element 2')
    # whole-millimetre levels given as an integer array
    wi = eng.int('w_int')
    eng.assume(wi <= zs[-1])
    eng.assume(wi >= zs[0] - 5)
    try:
        vi = T(wi)
        ai = T(nplite.array([wi], dtype=int))
    except Exception as e:
        eng.fail_exception(e, label='C15: integer level fails')
        return
    eng.prove(ai[0] == vi, 'C15: an integer-typed array gives the same value as the scalar', detail='level w_int')
    # monotone: T(w2) - T(w) is the integral over [w, w2] of a positive integrand.  With the
    # integral uninterpreted this is checked as: both values use I(z0, .) of the same integrand
    # and the code takes no other route (additivity of integrals is a fact of analysis).
    eng.note({'t': 'reached'})
    if ctx.get('replay') and eng.stats.paths % 3 == 0:
        wit = eng.witness()
        if wit is not None:
            ok, info = replay_concrete(ctx['knots'], model_fractions(wit))
            eng.note({'t': 'witness', 'n': 1})
            if not ok:
                eng.note({'t': 'witness_mismatch', 'v': info})
            else:
                eng.note({'t': 'sample', 'v': info})


def closed_form(zs, Ks, tmin, w):
    """Exact integral of exp(piecewise-linear log K) from zs[0] to w (floats)."""
    import math
    if w <= zs[0]:
        return tmin
    tot = tmin
    for j in range(len(zs) - 1):
        a, b = zs[j], min(zs[j + 1], w)
        if b <= a:
            break
        la, lb = math.log(Ks[j]), math.log(Ks[j + 1])
        s = (lb - la) / (zs[j + 1] - zs[j])
        ka = Ks[j]
        kb = math.exp(la + s * (b - a))
        tot += (kb - ka) / s if abs(s) > 1e-300 else ka * (b - a)
    return tot


def replay_concrete(n, m):
    """Real SplineTransmissivity vs the closed form (sampling; labelled as such)."""
    import numpy as np
    real = loader.real_module('spowtd.transmissivity')
    zs = [float(m.get('z%d' % i, i)) for i in range(n)]
    Ks = [float(m.get('K%d' % i, 1)) for i in range(n)]
    tmin = float(m.get('T_min', 1))
    w = float(m.get('w', zs[0]))
    wi = int(m.get('w_int', 0)) if 'w_int' in m else None
    info = {'zeta_knots_mm': zs, 'K_knots_km_d': Ks, 'T_min': tmin, 'w': w, 'w_int': wi}
    if any(k <= 0 for k in Ks) or any(b <= a for a, b in zip(zs, zs[1:])) or max(Ks) / min(Ks) > 1e12:
        info['skipped'] = 'model not usable in doubles'
        return True, info
    try:
        T = real.SplineTransmissivity(zs, Ks, tmin)
        v = float(T(w))
        arr = T(np.array([w, zs[0]]))
    except Exception as e:
        info['real_exception'] = '%s: %s' % (type(e).__name__, e)
        return (w >= zs[-1]), info         # the very top knot raises NotImplementedError by design
    want = closed_form(zs, Ks, tmin, w)
    info.update(value=v, closed_form=want, array=[float(x) for x in arr])
    if wi is not None and zs[0] - 5 <= wi < zs[-1]:
        try:
            a_i = float(T(np.array([wi]))[0])
            s_i = float(T(float(wi)))
            info.update(int_array_value=a_i, scalar_value_at_int=s_i)
            if abs(a_i - s_i) > 1e-9 * max(1.0, abs(s_i)):
                return False, info
        except Exception as e:
            info['real_exception'] = '%s: %s' % (type(e).__name__, e)
            return False, info
    ok = abs(v - want) <= 1e-6 * max(1.0, abs(want)) and abs(float(arr[0]) - v) <= 1e-12 * max(1.0, abs(v)) and float(arr[1]) == tmin
    try:
        arr3 = [float(x) for x in T(np.array([zs[0], w, zs[0] - 5]))]
        info['unordered_array'] = arr3
        ok = ok and arr3[0] == tmin and abs(arr3[1] - v) <= 1e-9 * max(1.0, abs(v)) and arr3[2] == tmin
    except Exception as e:
        info['real_exception'] = '%s: %s' % (type(e).__name__, e)
        return False, info
    return ok, info


class C15(Check):
    pid = 'C15'
    replay_candidates = 48      # concrete replays are cheap; a closed-form variant fails the structural obligation on
                                # every path but is wrong only on some (e.g. a uniform layer holding the level)

    def run(self):
        quick = self.tier == 'quick'
        nk = [2, 3] if quick else [2, 3, 4]
        self.unit('spowtd.transmissivity', 'SplineTransmissivity.__init__', 'SplineTransmissivity.conductivity',
                  'SplineTransmissivity.call_scalar', 'SplineTransmissivity.__call__')
        self.unit('spowtd.spline', 'Spline.from_points', 'Spline.__call__')
        self.bounds = {'knots': nk, 'knot levels': 'symbolic strictly increasing', 'conductivities': 'symbolic > 0', 'level w': 'any real <= highest knot'}
        self.assumptions = ['quad(f,a,b) is the exact integral (uninterpreted I_f(a,b)); f is evaluated at one symbolic point strictly '
                            'between the limits, one path per linear piece', 'exp/log uninterpreted with exp(log t)=t, exp>0',
                            'monotonicity and continuity follow from: same lower limit z_0 for every level, positive integrand (both proved), '
                            'additivity of integrals (analysis)']
        self.stubs = spline_common.STUBS + ['scipy.integrate.quad -> uninterpreted integral, integrand probed at a fresh point',
                                            'numpy exp/log -> uninterpreted with the axioms used']
        self.outside = ['QUADPACK accuracy (witness replays compare the real value with the closed form to 1e-6: sampling)',
                        'levels above the highest knot (NotImplementedError by design)']
        for k in nk:
            exp = symx.explore(harness, {'knots': k, 'replay': True}, name='transmissivity[knots=%d]' % k)
            self.absorb(exp, need_paths=2)

    def replay(self, failure):
        n = int(failure['harness'].split('=')[1].rstrip(']'))
        m = model_fractions(failure.get('model'))
        ok, info = replay_concrete(n, m)
        info['expected'] = failure.get('detail')
        info['label'] = failure.get('label')
        if failure.get('kind') == 'exception':
            return 'real_exception' in info and info['real_exception'].startswith(failure['detail'].split(':')[0]) and float(m.get('w', 0)) < float(m.get('z%d' % (n - 1), 0)), info
        return not ok, info
