"""Function-level symbolic harness shared by C01, C02, C03.

Executes the real ``spowtd.classify.match_storms`` (and everything it calls:
get_true_interval_masks, get_candidate_match_intervals, disambiguate_matching,
find_stable_matching) on N symbolic rain intensities, N symbolic water levels
and two symbolic thresholds.
"""

import zlib
from fractions import Fraction

from vf import symx, loader, nplite
from vf.framework import model_fractions

UNITS = ('match_storms', 'get_true_interval_masks', 'get_candidate_match_intervals',
         'disambiguate_matching', 'find_stable_matching', 'assert_equal')


def make_inputs(eng, N):
    rain = [eng.real('rain%d' % i) for i in range(N)]
    head = [eng.real('head%d' % i) for i in range(N)]
    tr = eng.real('thr_rain')
    tj = eng.real('thr_jump')
    for r in rain:
        eng.assume(r >= 0)
    eng.assume(tr > 0)
    eng.assume(tj > 0)
    return rain, head, tr, tj


def runs_of(flags):
    """Maximal runs of True in a list of concrete bools -> [(start, stop)]."""
    out = []
    i = 0
    n = len(flags)
    while i < n:
        if flags[i]:
            j = i
            while j < n and flags[j]:
                j += 1
            out.append((i, j))
            i = j
        else:
            i += 1
    return out


def overlap_steps(storm, rise):
    """Time steps lying both in storm [a,b) and in rise samples [js,je) (increments js..je-2)."""
    a, b = storm
    js, je = rise
    lo = max(a, js)
    hi = min(b - 1, je - 2)
    return lo, hi


def oracle(eng, props, N, rain, head, tr, tj, result):
    rain_iv, head_iv = result
    rain_iv = [(int(a), int(b)) for a, b in rain_iv]
    head_iv = [(int(a), int(b)) for a, b in head_iv]
    eng.prove(len(rain_iv) == len(head_iv), 'pairs: equal length')
    if 'C01' in props:
        eng.prove(len(set(rain_iv)) == len(rain_iv), 'C01: no storm recorded twice')
        eng.prove(len(set(head_iv)) == len(head_iv), 'C01: no rise recorded twice')
        # as recorded in the database a storm is keyed by its start, a rise by its start
        eng.prove(len({a for a, _ in rain_iv}) == len(rain_iv), 'C01: storm starts distinct')
        eng.prove(len({a for a, _ in head_iv}) == len(head_iv), 'C01: rise starts distinct')
        for s, r in zip(rain_iv, head_iv):
            lo, hi = overlap_steps(s, r)
            eng.prove(lo <= hi, 'C01: pair shares a time step', detail='storm %r rise %r' % (s, r))
            eng.prove(0 <= s[0] < s[1] <= N and 0 <= r[0] and r[0] + 2 <= r[1] <= N,
                      'C01: interval inside the record', detail='storm %r rise %r' % (s, r))
    if 'C03' in props:
        for (a, b) in rain_iv:
            for i in range(a, b):
                eng.prove(rain[i] > tr, 'C03: storm step above threshold')
            if a > 0:
                eng.prove(rain[a - 1] <= tr, 'C03: storm maximal on the left')
            if b < N:
                eng.prove(rain[b] <= tr, 'C03: storm maximal on the right')
        for (js, je) in head_iv:
            for i in range(js, je - 1):
                eng.prove(head[i + 1] - head[i] > tj, 'C03: rise increment above threshold')
            if js > 0:
                eng.prove(head[js] - head[js - 1] <= tj, 'C03: rise maximal on the left')
            if je < N:
                eng.prove(head[je] - head[je - 1] <= tj, 'C03: rise maximal on the right')
    if 'C02' in props:
        # candidates and preferences recomputed from the run structure alone
        is_rain = [bool(rain[i] > tr) for i in range(N)]
        is_jump = [bool(head[i + 1] - head[i] > tj) for i in range(N - 1)]
        storms = runs_of(is_rain)
        rises = [(s, e + 1) for s, e in runs_of(is_jump)]   # sample slice
        cand = []
        for s in storms:
            for r in rises:
                # overlap as the repository defines a candidate: a raining step (not the
                # last sample of the record) inside the rise's increments
                lo = max(s[0], r[0])
                hi = min(s[1] - 1, r[1] - 2, N - 2)
                if lo <= hi:
                    cand.append((s, r))
        matched = dict(zip(rain_iv, head_iv))
        matched_r = dict(zip(head_iv, rain_iv))
        for s, r in zip(rain_iv, head_iv):
            eng.prove((s, r) in cand, 'C02: matched pair is a candidate', detail='%r %r' % (s, r))

        def dur_gap(s, r):
            return abs((s[1] - s[0]) - (r[1] - r[0]))

        def start_gap(s, r):
            return abs(r[0] - s[0])
        for (s, r) in cand:
            if matched.get(s) == r:
                continue
            s_wants = s not in matched or dur_gap(s, r) < dur_gap(s, matched[s])
            r_wants = r not in matched_r or start_gap(matched_r[r], r) > start_gap(s, r)
            eng.prove(not (s_wants and r_wants), 'C02: no blocking pair (data level)',
                      detail='storm %r rise %r matching %r' % (s, r, sorted(matched.items())))


def harness(eng, ctx):
    N = ctx['N']
    props = ctx['props']
    cl = loader.load('spowtd.classify', 'R')
    rain, head, tr, tj = make_inputs(eng, N)
    handed = []
    original = cl.disambiguate_matching
    if 'C02' in props:
        def spy(rain_intervals, jump_intervals):
            handed.append((list(rain_intervals), list(jump_intervals)))
            return original(rain_intervals, jump_intervals)
        cl.disambiguate_matching = spy
    try:
        result = cl.match_storms(nplite.array(rain), nplite.array(head), tr, tj)
    except Exception as e:  # every exception on a loadable input violates C01
        if 'C01' in props:
            eng.fail_exception(e)
        return
    finally:
        cl.disambiguate_matching = original
    if 'C02' in props and handed:
        # the many-to-many relation handed to the arbitration step must be exactly the
        # overlapping (storm, rise) pairs of the record
        is_rain = [bool(rain[i] > tr) for i in range(N)]
        is_jump = [bool(head[i + 1] - head[i] > tj) for i in range(N - 1)]
        want = set()
        for s in runs_of(is_rain):
            for (a, b) in runs_of(is_jump):
                r = (a, b + 1)
                if max(s[0], r[0]) <= min(s[1] - 1, r[1] - 2):
                    want.add((s, r))
        got = set(((int(a), int(b)), (int(c), int(d))) for (a, b), (c, d) in zip(*handed[0]))
        eng.prove(got == want, 'C02: candidates are exactly the overlapping storm-rise pairs',
                  detail='handed %r expected %r' % (sorted(got), sorted(want)))
    oracle(eng, props, N, rain, head, tr, tj, result)
    eng.note({'t': 'reached'})
    # witness replay on the real code with real numpy
    key = zlib.crc32(repr(eng.decisions).encode()) ^ ctx.get('seed', 0)
    if key % ctx.get('replay_every', 7) == 0:
        w = eng.witness()
        if w is not None:
            ok, info = replay_concrete(N, model_fractions(w), expect=result,
                                       multi_pop=any(d[0] == 'v' for d in eng.decisions))
            eng.note({'t': 'witness', 'n': 1})
            if not ok:
                eng.note({'t': 'witness_mismatch', 'v': info})
            elif key % 97 == 0:
                eng.note({'t': 'sample', 'v': info})


def concrete_inputs(N, m):
    import numpy as np
    rain = np.array([float(m.get('rain%d' % i, 0)) for i in range(N)], dtype=float)
    head = np.array([float(m.get('head%d' % i, 0)) for i in range(N)], dtype=float)
    tr = float(m.get('thr_rain', 1))
    tj = float(m.get('thr_jump', 1))
    return rain, head, tr, tj


def replay_concrete(N, m, expect=None, multi_pop=False):
    """Run the unmodified repository function with the real numpy."""
    real = loader.real_module('spowtd.classify')
    rain, head, tr, tj = concrete_inputs(N, m)
    info = {'rain': rain.tolist(), 'head': head.tolist(), 'thr_rain': tr, 'thr_jump': tj}
    try:
        r_iv, h_iv = real.match_storms(rain, head, tr, tj)
    except Exception as e:
        info['real_exception'] = '%s: %s' % (type(e).__name__, str(e)[:200])
        info['trace'] = symx.site_of_exception(e)
        return False, info
    got = sorted(zip([tuple(int(x) for x in a) for a in r_iv], [tuple(int(x) for x in a) for a in h_iv]))
    info['real_result'] = got
    if expect is not None:
        exp = sorted(zip([(int(a), int(b)) for a, b in expect[0]], [(int(a), int(b)) for a, b in expect[1]]))
        info['symbolic_result'] = exp
        if not multi_pop and exp != got:
            return False, info
        if multi_pop and len(exp) != len(got):
            return False, info
    return True, info


def replay_failure(N, failure):
    """Does the failing model fail the same way on the real code?

    The engine explores every ``set.pop()`` order; CPython's order for a set of
    small ints depends on the values (hash modulo table size).  When the failure
    lies on a path with a pop choice the same record is therefore also tried
    with k dry, flat samples prepended (k = 1..40), which shifts every index by
    k and with it the pop order, without changing the run structure.
    """
    rep, info = _replay_failure(N, failure, 0)
    if rep or not failure.get('has_pop_choice', True):
        return rep, info
    for k in range(1, 41):
        rep2, info2 = _replay_failure(N, failure, k)
        if rep2:
            info2['prepended_dry_samples'] = k
            return rep2, info2
    return rep, info


def _replay_failure(N, failure, shift):
    m = model_fractions(failure.get('model'))
    real = loader.real_module('spowtd.classify')
    rain, head, tr, tj = concrete_inputs(N, m)
    if shift:
        import numpy as np
        rain = np.concatenate((np.zeros(shift), rain))
        head = np.concatenate((np.full(shift, head[0]), head))
        N = N + shift
    info = {'entry': 'spowtd.classify.match_storms', 'rain': rain.tolist(), 'head': head.tolist(),
            'thr_rain': tr, 'thr_jump': tj, 'expected': failure.get('detail')}
    try:
        r_iv, h_iv = real.match_storms(rain, head, tr, tj)
    except Exception as e:
        info['observed'] = '%s: %s' % (type(e).__name__, str(e)[:200])
        info['trace'] = symx.site_of_exception(e)
        if failure.get('kind') == 'exception':
            want = failure['detail'].split(':', 1)[0]
            return type(e).__name__ == want, info
        return False, info
    r_iv = [tuple(int(x) for x in a) for a in r_iv]
    h_iv = [tuple(int(x) for x in a) for a in h_iv]
    info['observed'] = {'rain_intervals': r_iv, 'head_intervals': h_iv}
    if failure.get('kind') == 'exception':
        return False, info
    if failure.get('label', '').startswith('C02: candidates'):
        captured = []
        orig = real.disambiguate_matching

        def spy(ri, ji):
            captured.append((list(ri), list(ji)))
            return orig(ri, ji)
        real.disambiguate_matching = spy
        try:
            real.match_storms(rain, head, tr, tj)
        finally:
            real.disambiguate_matching = orig
        is_rain = [bool(v > tr) for v in rain]
        is_jump = [bool(head[i + 1] - head[i] > tj) for i in range(N - 1)]
        want = set()
        for s_ in runs_of(is_rain):
            for (a, b) in runs_of(is_jump):
                r_ = (a, b + 1)
                if max(s_[0], r_[0]) <= min(s_[1] - 1, r_[1] - 2):
                    want.add((s_, r_))
        got = set(((int(a), int(b)), (int(c), int(d))) for (a, b), (c, d) in zip(*captured[0])) if captured else set()
        info['candidates_handed'] = sorted(got)
        info['candidates_expected'] = sorted(want)
        return got != want, info
    # an obligation failed: re-evaluate the same obligation concretely
    ok = concrete_oracle(failure.get('label', ''), N, rain, head, tr, tj, r_iv, h_iv)
    info['oracle_holds_concretely'] = ok
    return (not ok), info


def concrete_oracle(label, N, rain, head, tr, tj, r_iv, h_iv):
    """Concrete counterpart of ``oracle`` for one label; True when it holds."""
    class _E:
        def __init__(self):
            self.bad = []

        def prove(self, cond, lab, detail=None):
            if lab == label and not bool(cond):
                self.bad.append(lab)
    e = _E()
    props = {label.split(':', 1)[0]} if ':' in label else {'C01', 'C02', 'C03'}
    if label.startswith('pairs'):
        props = {'C01'}
    rl = [Fraction(float(x)) for x in rain]
    hl = [Fraction(float(x)) for x in head]
    oracle(e, props, N, rl, hl, Fraction(tr), Fraction(tj), (r_iv, h_iv))
    return not e.bad
