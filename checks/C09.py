"""C09 -- the reference water level is the origin of the master curve.

F  (bit-precise doubles): the real compute_rise_offsets / compute_offsets run on a
   planted dataset in symsql with a *symbolic* reference level
       ref = fl(k * p / q)        (the correctly rounded double of the decimal k*step)
   for a symbolic integer k.  Obligations: the reference is not refused, and the
   level index the code derives from it (captured where it is used as a dictionary
   key) equals k.  A second family uses the half-way points (2k+1) * step / 2, which
   must be refused.
R  (reals): with the reference k * step for every level k of the assembled curve the
   master-curve view is zero at that level; without a reference it is zero at the
   highest level.  Rain depths are symbolic, so the identity is proved, not sampled.
"""

import builtins
from fractions import Fraction

import z3

from vf import symx, symsql, loader, nplite, pipeline, synth, libstubs
from vf.framework import Check, model_fractions
from checks import dbstate

STEPS_QUICK = ['1', '0.5', '0.1', '0.2', '0.3', '2.5', '5']
STEPS_THOROUGH = STEPS_QUICK + ['0.05', '0.25', '0.4', '10']


class _Reached(BaseException):
    pass


def planted(step_s=3600, scale=1):
    """Planted record; levels, rain and drizzle multiplied by ``scale`` so that the number
    of grid levels stays small whatever the grid step."""
    scale = Fraction(scale)
    rec = synth.planted_record(step_s=step_s, recessions=((1, 7), (0, 8), (3, 9)))
    if scale != 1:
        rec['zeta'] = [z * scale for z in rec['zeta']]
        rec['rain'] = [r * scale for r in rec['rain']]
    rec['scale'] = scale
    return rec


def scale_for(grid_step):
    return Fraction(grid_step) / 4


_DB_CACHE = {}


def classified_db(grid_step, symbolic_rain=None):
    """symsql connection after classify + set-zeta-grid on the planted record.

    The classified state is concrete and is built once per process (outside the
    path under exploration); every path works on its own copy.  Symbolic rain
    intensities, if any, replace the stored values of storm steps *after*
    classification (which is not under test here): the rain depth of each storm,
    read through the view storm_total_rain_depth, becomes symbolic."""
    key = ('base', str(grid_step))
    if key not in _DB_CACHE:
        m = pipeline.sym_modules('R')
        sc = scale_for(grid_step)
        rec = planted(scale=sc)
        G = len(rec['rain']) - 1
        saved = symx._ENGINE
        symx._ENGINE = None
        try:
            with symx.single_path():
                conn = symsql.Connection()
                dbstate.build(conn, rec['epochs'][:G + 1], [True] * (G + 1), list(rec['rain'][:G]), rec['et'][:G],
                              rec['zeta'][:G + 1], rec['step_s'])
                m['classify'].classify_intervals(conn, 2 * sc, 4 * sc)
                m['zeta_grid'].populate_zeta_grid(conn, grid_step)
                conn.commit()
        finally:
            symx._ENGINE = saved
        _DB_CACHE[key] = (conn.db, rec)
    db, rec = _DB_CACHE[key]
    conn = symsql.Connection(db.clone())
    if symbolic_rain:
        t = conn.db.tables['rainfall_intensity']
        for i, v in symbolic_rain.items():
            for row in t.rows:
                if row['from_epoch'] == rec['epochs'][i]:
                    row['rainfall_intensity_mm_h'] = v
    return conn, rec


def fmode_modules():
    """rise / recession with int() and round() of a symbolic double kept in the
    floating-point domain (SymFInt)."""
    m = pipeline.sym_modules('R')

    def int_(x=0, base=None):
        if isinstance(x, symx.SymFInt):
            return x
        if isinstance(x, symx.SymF64):
            return symx.SymFInt(z3.fpRoundToIntegral(z3.RTZ(), x.z))
        return loader._mk_int('R')(x) if base is None else builtins.int(x, base)

    def round_(x, n=None):
        if isinstance(x, symx.SymF64) and n is None:
            return symx.SymFInt(z3.fpRoundToIntegral(z3.RNE(), x.z))
        return loader._round(x, n)
    for name in ('rise', 'recession'):
        m[name].__dict__['int'] = int_
        m[name].__dict__['round'] = round_
    return m


def harness_F(eng, ctx):
    """On-grid (kind='on') references must be accepted with index k; half-way points
    (kind='half') must be refused."""
    which, kind = ctx['which'], ctx['kind']
    step_txt = ctx['step']
    step = Fraction(step_txt)
    K = ctx['K']
    m = fmode_modules()
    conn, rec = classified_db(step)
    k = eng.fint('k', -K, K)
    kfp = eng.fp_atoms['k']
    p, q = step.numerator, step.denominator
    R = z3.RNE()
    F = symx.F64()
    if kind == 'on':
        num = z3.fpMul(R, z3.FPVal(float(p), F), kfp)                 # exact: |k p| < 2**53
        den = float(q)
    elif kind == 'near':
        # three millionths of a step above a multiple: the decimal (k + 0.000003) * step
        num = z3.fpAdd(R, z3.fpMul(R, z3.FPVal(float(p * 10 ** 6), F), kfp), z3.FPVal(float(3 * p), F))
        den = float(q * 10 ** 6)
    else:
        num = z3.fpMul(R, z3.FPVal(float(p), F), z3.fpAdd(R, z3.fpMul(R, z3.FPVal(2.0, F), kfp), z3.FPVal(1.0, F)))
        den = float(2 * q)
    ref = symx.SymF64(z3.fpDiv(R, num, z3.FPVal(den, F)))           # correctly rounded decimal parse
    state = {}

    def hook(idx):
        state['index'] = idx
        raise _Reached()
    eng.hash_hook = hook
    fn = m['rise'].compute_rise_offsets if which == 'rise' else m['recession'].compute_offsets
    try:
        fn(conn.cursor(), ref)
    except _Reached:
        if kind == 'on':
            eng.prove(z3.fpEQ(state['index'].z, kfp), 'C09: index derived from an on-grid reference is k',
                      detail='%s, step %s' % (which, step_txt))
        else:
            eng.fail_exception(ValueError('not refused'), label='C09: an off-grid reference (%s) is accepted' % ('half a step' if kind == 'half' else '3e-6 of a step') + ' off')
        eng.note({'t': 'reached'})
        return
    except ValueError as e:
        if kind == 'on':
            eng.fail_exception(e, label='C09: an on-grid reference is refused')
        else:
            eng.note({'t': 'reached'})
        return
    except Exception as e:
        eng.fail_exception(e, label='C09: unexpected exception with a symbolic reference')
        return
    finally:
        eng.hash_hook = None
    eng.fail_exception(RuntimeError('reference index never used'), label='C09: harness did not reach the index lookup')


def harness_R(eng, ctx):
    """Origin of the assembled curve (reals, symbolic rain depths)."""
    which = ctx['which']
    step = Fraction(ctx['step'])
    m = pipeline.sym_modules('R')
    rec0 = planted(scale=scale_for(step))
    # symbolic intensity on the first step of every storm (keeps the classification
    # of the planted record: values stay above the storm threshold)
    sym = {}
    if which == 'rise':
        for ev in rec0['events']:
            if ev['kind'] == 'storm':
                i = ev['first_step']
                v = eng.real('rain%d' % i)
                eng.assume(v > 2 * scale_for(step))
                eng.assume(v < 1000)
                sym[i] = v
    conn, rec = classified_db(step, sym)
    view = 'average_rising_depth' if which == 'rise' else 'average_recession_time'
    col = 'mean_crossing_depth_mm' if which == 'rise' else 'elapsed_time_s'
    fn = m['rise'].find_rise_offsets if which == 'rise' else m['recession'].find_recession_offsets
    # levels of the curve: run once without a reference on a copy
    mode = ctx['mode']
    if mode == 'none':
        try:
            fn(conn, None)
        except Exception as e:
            eng.fail_exception(e, label='C09: assembly without a reference fails')
            return
        rows = conn.execute('SELECT zeta_mm, %s FROM %s ORDER BY zeta_mm' % (col, view)).fetchall()
        if not eng.prove(len(rows) >= 2, 'C09: curve assembled (harness sanity)'):
            return
        eng.prove(rows[-1][1] == 0, 'C09: without a reference the highest level is the origin',
                  detail='%s value at top level %r: %r' % (which, rows[-1][0], rows[-1][1]))
        for z, v in rows[:-1]:
            pass
        eng.note({'t': 'reached'})
        eng.note({'t': 'sample', 'v': {'which': which, 'step': ctx['step'], 'levels': len(rows), 'top_level_mm': str(rows[-1][0])}})
        return
    lo, hi = ctx['krange']
    k = eng.int('k')
    eng.assume(k >= lo)
    eng.assume(k <= hi)
    ref = k * step
    try:
        fn(conn, ref)
    except KeyError:
        # a multiple of the step that no interval crosses: outside the property
        raise symx.PathAbort('reference level not in the curve')
    except Exception as e:
        eng.fail_exception(e, label='C09: on-grid reference (reals) fails')
        return
    kk = int(k)
    rows = conn.execute('SELECT zeta_mm, %s FROM %s ORDER BY zeta_mm' % (col, view)).fetchall()
    hit = [v for z, v in rows if z == kk * step]
    if not eng.prove(len(hit) == 1, 'C09: reference level is a level of the curve', detail='k=%d' % kk):
        return
    eng.prove(hit[0] == 0, 'C09: master curve is zero at the reference level', detail='%s k=%d value %r' % (which, kk, hit[0]))
    eng.note({'t': 'reached'})


def level_range(which, step):
    """Range of level numbers of the planted curve (concrete run, real code)."""
    key = (which, step)
    if key not in _DB_CACHE:
        sc = scale_for(step)
        rec = planted(scale=sc)
        with pipeline.RealRun(synth.to_csv_texts(rec)) as rr:
            errs = [rr.load(), rr.classify(2 * sc, 4 * sc), rr.zeta_grid(float(Fraction(step))), rr.rise() if which == 'rise' else rr.recession()]
            if any(e is not None for e in errs):
                raise RuntimeError('planted workflow failed: %r' % errs)
            t = 'rising_interval_zeta' if which == 'rise' else 'recession_interval_zeta'
            (lo, hi), = rr.query('SELECT min(zeta_number), max(zeta_number) FROM %s' % t)
        _DB_CACHE[key] = (lo, hi)
    return _DB_CACHE[key]


def real_reference_run(which, step_txt, ref_text):
    """`spowtd rise|recession -r <ref>` of the real code on the planted record."""
    sc = scale_for(step_txt)
    rec = planted(scale=sc)
    with pipeline.RealRun(synth.to_csv_texts(rec)) as rr:
        errs = [rr.load(), rr.classify(2 * sc, 4 * sc), rr.zeta_grid(float(Fraction(step_txt)))]
        if any(e is not None for e in errs):
            return {'setup_error': repr(errs)}
        err = rr.rise(ref_text) if which == 'rise' else rr.recession(ref_text)
        out = {'command': 'spowtd %s -r %s (grid step %s mm)' % (which, ref_text, step_txt),
               'error': None if err is None else '%s: %s' % (type(err).__name__, str(err)[:200])}
        if err is None:
            view = 'average_rising_depth' if which == 'rise' else 'average_recession_time'
            col = 'mean_crossing_depth_mm' if which == 'rise' else 'elapsed_time_s'
            rows = rr.query('SELECT zeta_mm, %s FROM %s ORDER BY zeta_mm' % (col, view))
            out['zero_levels'] = [z for z, v in rows if abs(v) < 1e-6 * max(1.0, max(abs(x) for _, x in rows))]
            out['levels'] = [rows[0][0], rows[-1][0]]
        return out


def _task(args):
    name, harness, ctx, kw = args
    exp = symx.explore(harness, ctx, name=name, workers=1, engine_kw=kw)
    return exp


class C09(Check):
    pid = 'C09'

    def run(self):
        quick = self.tier == 'quick'
        steps = STEPS_QUICK if quick else STEPS_THOROUGH
        K = 1024 if quick else 32768
        self.bounds = {'grid steps (mm)': steps, 'F: |k|': K, 'F: |k| for the 3e-6 family': 128 if quick else 4096, 'F: reference': 'fl(k*step) on-grid; fl((2k+1)*step/2) and fl((k+3e-6)*step) off-grid',
                       'R: k': 'every level of the planted curve', 'dataset': 'planted record (3 storms + 3 recessions, 1 h step), levels scaled to about 10 grid levels per interval'}
        self.unit('spowtd.rise', 'compute_rise_offsets', 'find_rise_offsets')
        self.unit('spowtd.recession', 'compute_offsets', 'find_recession_offsets')
        self.unit('spowtd.schema.sql', 'views average_rising_depth, average_recession_time')
        self.assumptions = ['F: the reference is the correctly rounded double of the decimal text k*step (one division of exact integers), '
                            'as Python parses the CLI argument; the grid step read from the database is the correctly rounded double of its decimal text',
                            'F: data of the planted record are exact rationals (R-mode); only the reference block is bit-precise',
                            '"not a multiple" is exercised on the half-way points (distance step/2) and on points 3e-6 of a step away from a multiple',
                            'a multiple of the step that no interval crosses raises KeyError: stated as outside the property']
        self.stubs = ['numpy -> vf.nplite', 'sqlite3 -> vf.symsql', 'interp1d / brentq / linalg.solve contracts',
                      'int() / round() of a symbolic double -> integral-valued Float64 term (fpRoundToIntegral RTZ / RNE)']
        self.outside = ['|k| beyond the bound', 'off-grid references other than half-way points', 'datasets other than the planted one (the reference block does not read data)']
        self.run_conformance(patterns=None)
        import multiprocessing as mp
        tasks = []
        tmo = 240000 if quick else 1500000
        for which in ('rise', 'recession'):
            for st in steps:
                kw = {'query_timeout_ms': tmo, 'oneshot_tactic': 'qffp'}
                tasks.append(('F_on[%s,step=%s]' % (which, st), harness_F, {'which': which, 'kind': 'on', 'step': st, 'K': K}, kw))
                tasks.append(('F_half[%s,step=%s]' % (which, st), harness_F, {'which': which, 'kind': 'half', 'step': st, 'K': K}, kw))
                if st in ('1', '0.1') or not quick:
                    tasks.append(('F_near[%s,step=%s]' % (which, st), harness_F,
                                  {'which': which, 'kind': 'near', 'step': st, 'K': 128 if quick else 4096}, kw))
        from vf.framework import run_tasks
        lost = lambda t, why: self.harness_errors.append('%s: no result: %s' % (t[0] if isinstance(t, (tuple, list)) else t, why))
        if True:
            for exp in run_tasks(_task, tasks, 16, lost, timeout_s=1500 if quick else 4 * 3600):
                self.absorb(exp, need_paths=1)
        r_steps = ['1', '0.5', '0.3'] if quick else ['1', '0.5', '0.3', '0.1', '2.5']
        for which in ('rise', 'recession'):
            for st in r_steps:
                lo, hi = level_range(which, st)
                exp = symx.explore(harness_R, {'which': which, 'step': st, 'mode': 'k', 'krange': (lo - 1, hi + 1)},
                                   name='R_origin[%s,step=%s]' % (which, st))
                self.absorb(exp, need_paths=2)
                exp = symx.explore(harness_R, {'which': which, 'step': st, 'mode': 'none'}, name='R_noref[%s,step=%s]' % (which, st), workers=1)
                self.absorb(exp, need_paths=1)
        # witness replays on the real CLI: a few on-grid references per step
        for which in ('rise', 'recession'):
            for st in steps[:4]:
                lo, hi = level_range(which, st)
                kk = (lo + hi) // 2
                ref_text = str(Fraction(st) * kk) if Fraction(st).denominator == 1 else repr(float(Fraction(st) * kk))
                out = real_reference_run(which, st, ref_text)
                self.witness_replays += 1
                want = float(Fraction(st) * kk)
                if out.get('error') or not any(abs(z - want) < 1e-9 for z in out.get('zero_levels', [])):
                    self.witness_mismatch.append(out)
                    self.harness_errors.append('witness replay: real CLI disagrees with the symbolic verdict: %r' % (out,))
                elif len(self.samples) < 4:
                    self.samples.append(out)

    def replay(self, failure):
        h = failure['harness']
        which = h.split('[')[1].split(',')[0]
        st = h.split('step=')[1].rstrip(']')
        m = model_fractions(failure.get('model'))
        step = Fraction(st)
        info = {'expected': failure.get('detail'), 'label': failure.get('label')}
        k = int(m.get('k', 0))
        if h.startswith('F_on'):
            ref = Fraction(k) * step
            ref_text = _decimal_text(ref)
            # the reference block does not depend on whether the level is in the curve: a refusal
            # (ValueError) or a wrong index show directly; KeyError means "accepted with index not in curve"
            out = real_reference_run(which, st, ref_text)
            info['observed'] = out
            idx = real_index(which, st, ref_text)
            info['reference_index_computed_by_the_real_code'] = idx
            if 'refused' in failure.get('label', ''):
                return (out.get('error') or '').startswith('ValueError'), info
            return idx is not None and idx != k, info
        if h.startswith('F_near'):
            ref = (Fraction(k) + Fraction(3, 10 ** 6)) * step
            out = real_reference_run(which, st, _decimal_text(ref))
            info['observed'] = out
            return not (out.get('error') or '').startswith('ValueError'), info
        if h.startswith('F_half'):
            ref = Fraction(2 * k + 1) * step / 2
            out = real_reference_run(which, st, _decimal_text(ref))
            info['observed'] = out
            return not (out.get('error') or '').startswith('ValueError'), info
        if h.startswith('R_origin'):
            ref = Fraction(k) * step
            out = real_reference_run(which, st, _decimal_text(ref))
            info['observed'] = out
            want = float(ref)
            err = out.get('error')
            if failure.get('kind') == 'exception':
                # the same kind of failure must show on the real code; "KeyError: k" only says that the
                # model's level is not in the curve (outside the property) and reproduces nothing
                return err is not None and err.split(':')[0] == (failure.get('detail') or '').split(':')[0] and not err.startswith('KeyError'), info
            if err is not None:
                return not err.startswith('KeyError'), info
            return not any(abs(z - want) < 1e-9 for z in out.get('zero_levels', [])), info
        if h.startswith('R_noref'):
            sc = scale_for(step)
            rec = planted(scale=sc)
            with pipeline.RealRun(synth.to_csv_texts(rec)) as rr:
                errs = [rr.load(), rr.classify(2 * sc, 4 * sc), rr.zeta_grid(float(step)), rr.rise() if which == 'rise' else rr.recession()]
                view = 'average_rising_depth' if which == 'rise' else 'average_recession_time'
                col = 'mean_crossing_depth_mm' if which == 'rise' else 'elapsed_time_s'
                rows = rr.query('SELECT zeta_mm, %s FROM %s ORDER BY zeta_mm' % (col, view)) if not any(errs) else []
            info['observed'] = {'errors': [repr(e) for e in errs if e], 'top': rows[-1] if rows else None}
            return (not rows) or abs(rows[-1][1]) > 1e-6 * max(1.0, max(abs(v) for _, v in rows)), info
        return False, info


def _decimal_text(q):
    """Shortest decimal text of a rational with a power-of-ten-friendly denominator."""
    q = Fraction(q)
    for digits in range(0, 12):
        scaled = q * 10 ** digits
        if scaled.denominator == 1:
            s = str(abs(scaled.numerator)).rjust(digits + 1, '0')
            txt = (s[:-digits] + '.' + s[-digits:]) if digits else s
            return ('-' if q < 0 else '') + txt
    return repr(float(q))


def real_index(which, st, ref_text):
    """The reference index the real code computes for this reference (by executing the
    real function with a dictionary that records the key looked up)."""
    import numpy as np
    mod = loader.real_module('spowtd.rise' if which == 'rise' else 'spowtd.recession')
    sc = scale_for(st)
    rec = planted(scale=sc)
    seen = {}

    class Spy(dict):
        def __getitem__(self, key):
            seen['key'] = key
            return dict.__getitem__(self, key)
    orig = mod.get_series_time_offsets

    def wrapped(series, step):
        i, o, mp_ = orig(series, step)
        return i, o, Spy(mp_)
    mod.get_series_time_offsets = wrapped
    try:
        with pipeline.RealRun(synth.to_csv_texts(rec)) as rr:
            errs = [rr.load(), rr.classify(2 * sc, 4 * sc), rr.zeta_grid(float(Fraction(st)))]
            (rr.rise if which == 'rise' else rr.recession)(ref_text)
    finally:
        mod.get_series_time_offsets = orig
    return seen.get('key')
