"""Loading of spline / specific_yield / transmissivity with the FITPACK contract bound."""
from vf import loader, libstubs

_CACHE = {}

STUBS = ['scipy.interpolate.splrep/splev/splint -> order 3, s=0: uninterpreted S with S(x_i)=y_i and uninterpreted '
         'antiderivative F, splint(p,q)=F(clip q)-F(clip p); order 1: exact piecewise-linear value and trapezoid integral',
         'numpy -> vf.nplite']


def load_spline(mode='R'):
    key = ('spline', mode)
    if key not in _CACHE:
        _CACHE[key] = loader.load('spowtd.spline', mode, bindings={'splev': libstubs.splev, 'splint': libstubs.splint,
                                                                'splrep': libstubs.splrep,
                                                                'interpolate_mod': libstubs.interpolate_mod})
        # module-level aliases taken from the real scipy.interpolate at import time (`f = interpolate_mod.f`)
        import scipy.interpolate as real_interpolate
        mod = _CACHE[key]
        for attr in ('splev', 'splint', 'splrep', 'splantider'):
            real_f = getattr(real_interpolate, attr, None)
            for name, val in list(vars(mod).items()):
                if real_f is not None and val is real_f:
                    setattr(mod, name, getattr(libstubs, attr))
    return _CACHE[key]


def load_sy(mode='R'):
    key = ('sy', mode)
    if key not in _CACHE:
        _CACHE[key] = loader.load('spowtd.specific_yield', mode, submodules={'spowtd.spline': load_spline(mode)},
                                  bindings={})
    return _CACHE[key]


def load_transmissivity(mode='R'):
    key = ('tr', mode)
    if key not in _CACHE:
        _CACHE[key] = loader.load('spowtd.transmissivity', mode, submodules={'spowtd.spline': load_spline(mode)},
                                  bindings={'integrate_mod': libstubs.integrate_mod})
    return _CACHE[key]
