"""C20 -- each workflow step is all-or-nothing and independent steps commute.

The real ``spowtd.user_interface.main`` runs on a real SQLite file; only the name
``sqlite3`` inside user_interface is rebound to a thin pure-Python proxy that counts
the SQL statements issued through the connection (``executemany`` unrolled, commit
counted as one more point) and injects a fault at statement number k.  The failing
statement index, the fault kind (raise an OperationalError / kill the process: the
step runs in a forked child that calls os._exit(137) at the chosen statement, so the
next open goes through SQLite's own hot-journal recovery), the step, the order of
independent steps and the positions of failed attempts are engine choices: every
value is explored, and the engine's 'no further value' answer closes the range.
"""

import os
import shutil
import sqlite3
import sys
import tempfile

from vf import symx, loader, pipeline, synth
from vf.framework import Check

STEPS = {
    'classify': lambda db: ['classify', db, '-s', '2.0', '-j', '4.0'],
    'set-zeta-grid': lambda db: ['set-zeta-grid', db, '-d', '1.0'],
    'set-curvature': lambda db: ['set-curvature', db, '1.5'],
    'rise': lambda db: ['rise', db],
    'recession': lambda db: ['recession', db],
}
PREREQ = {'classify': [], 'set-zeta-grid': [], 'set-curvature': [], 'rise': ['classify', 'set-zeta-grid'],
          'recession': ['classify', 'set-zeta-grid']}


class Injected(sqlite3.OperationalError):
    pass


class FaultPlan:
    def __init__(self, at=None, kind='raise'):
        self.at = at
        self.kind = kind
        self.count = 0
        self.log = []

    def point(self, what):
        """Called before every statement (and before commit)."""
        i = self.count
        self.count += 1
        self.log.append(what)
        if self.at is not None and i == self.at:
            if self.kind == 'kill':
                os._exit(137)
            raise Injected('injected failure at statement %d (%s)' % (i, what))


class CursorProxy:
    def __init__(self, cur, plan):
        self._c = cur
        self._p = plan

    def execute(self, sql, params=()):
        self._p.point(sql.strip().split(None, 2)[0:2])
        self._c.execute(sql, params)
        return self

    def executemany(self, sql, seq):
        for params in seq:
            self._p.point(sql.strip().split(None, 2)[0:2])
            self._c.execute(sql, params)
        return self

    def executescript(self, script):
        self._p.point(['SCRIPT'])
        self._c.executescript(script)
        return self

    def fetchone(self):
        return self._c.fetchone()

    def fetchall(self):
        return self._c.fetchall()

    def __iter__(self):
        return iter(self._c)

    def close(self):
        return self._c.close()

    @property
    def description(self):
        return self._c.description

    @property
    def rowcount(self):
        return self._c.rowcount


class ConnectionProxy:
    def __init__(self, conn, plan):
        self._conn = conn
        self._p = plan

    def cursor(self):
        return CursorProxy(self._conn.cursor(), self._p)

    def execute(self, sql, params=()):
        return self.cursor().execute(sql, params)

    def executemany(self, sql, seq):
        return self.cursor().executemany(sql, seq)

    def commit(self):
        self._p.point(['COMMIT'])
        return self._conn.commit()

    def rollback(self):
        return self._conn.rollback()

    def close(self):
        return self._conn.close()

    def __enter__(self):
        self._conn.__enter__()
        return self

    def __exit__(self, et, ev, tb):
        if et is None:
            self._p.point(['COMMIT (end of with block)'])
        return self._conn.__exit__(et, ev, tb)


class Sqlite3Proxy:
    """Stands for the module ``sqlite3`` inside spowtd.user_interface."""

    def __init__(self, plan):
        self.plan = plan
        for name in ('Error', 'DatabaseError', 'IntegrityError', 'OperationalError', 'ProgrammingError', 'InterfaceError', 'Row'):
            setattr(self, name, getattr(sqlite3, name))

    def connect(self, path, *a, **kw):
        conn = sqlite3.connect(path, *a, **kw)
        conn_holder.append(conn)
        return ConnectionProxy(conn, self.plan)


conn_holder = []


def run_step(db, step, plan):
    """Run one sub-command of the real CLI with the proxy bound; returns the exception or None."""
    ui = loader.real_module('spowtd.user_interface')
    saved = ui.sqlite3
    ui.sqlite3 = Sqlite3Proxy(plan)
    del conn_holder[:]
    try:
        try:
            ui.main(STEPS[step](db))
            err = None
        except SystemExit as e:
            err = e if e.code not in (0, None) else None
        except Exception as e:
            err = e
    finally:
        ui.sqlite3 = saved
        for c in conn_holder:
            try:
                c.close()
            except Exception:
                pass
        del conn_holder[:]
    return err


def run_step_killed(db, step, at):
    """Run the step in a forked child that dies at statement ``at``; returns its exit status."""
    sys.stdout.flush()
    sys.stderr.flush()
    pid = os.fork()
    if pid == 0:
        try:
            devnull = os.open(os.devnull, os.O_WRONLY)
            os.dup2(devnull, 1)
            os.dup2(devnull, 2)
            run_step(db, step, FaultPlan(at, 'kill'))
        finally:
            os._exit(0)
    _, status = os.waitpid(pid, 0)
    return os.waitstatus_to_exitcode(status)


def dump(db):
    con = sqlite3.connect(db)
    try:
        out = {}
        for (n,) in con.execute("SELECT name FROM sqlite_master WHERE type='table' ORDER BY name").fetchall():
            cols = [r[1] for r in con.execute('PRAGMA table_info(%s)' % n)]
            rows = con.execute('SELECT %s FROM %s' % (', '.join(cols), n)).fetchall()
            out[n] = sorted(rows, key=repr)
        return out
    finally:
        con.close()


class Bases:
    """Prepared database files: the state before each step, the state after it, statement counts."""

    def __init__(self, root):
        self.root = root
        # three storms and recessions, a hole in the level record (two data intervals), and a
        # final rise without rain up to the highest level of the record
        rec = synth.planted_record(step_s=3600, recessions=((1, 5), (0, 6), (2, 5)), tail_dry=1, final_jump=7)
        texts = synth.to_csv_texts(rec, drop_level_rows=(12, 13))
        rr = pipeline.RealRun(texts)
        err = rr.load()
        if err is not None:
            raise RuntimeError('load failed: %r' % (err,))
        self.loaded = os.path.join(root, 'loaded.sqlite3')
        shutil.copy(rr.db, self.loaded)
        rr.close()
        self.before = {}
        self.after = {}
        self.count = {}
        self.log = {}
        for step in STEPS:
            b = os.path.join(root, 'before-%s.sqlite3' % step)
            shutil.copy(self.loaded, b)
            for pre in PREREQ[step]:
                e = run_step(b, pre, FaultPlan())
                if e is not None:
                    raise RuntimeError('prerequisite %s failed: %r' % (pre, e))
            self.before[step] = b
            a = os.path.join(root, 'after-%s.sqlite3' % step)
            shutil.copy(b, a)
            plan = FaultPlan()
            e = run_step(a, step, plan)
            if e is not None:
                raise RuntimeError('step %s failed on the clean tree: %r' % (step, e))
            self.after[step] = a
            self.count[step] = plan.count
            self.log[step] = plan.log
        self.dump_before = {s: dump(p) for s, p in self.before.items()}
        self.dump_after = {s: dump(p) for s, p in self.after.items()}


def scratch(ctx, src):
    d = tempfile.mkdtemp(prefix='c20-', dir=ctx['root'])
    p = os.path.join(d, 'data.sqlite3')
    shutil.copy(src, p)
    return d, p


def harness_fault(eng, ctx):
    b = ctx['bases']
    steps = list(STEPS)
    step = steps[eng.choose(len(steps), 'step')]
    kind = ('raise', 'kill')[eng.choose(2, 'kind')]
    n = b.count[step]
    k = eng.choose(n, 'statement')
    for nm, v in (('step', steps.index(step)), ('kind', 0 if kind == 'raise' else 1), ('statement', k)):
        eng._register(nm, symx.SymInt(symx.z3.IntVal(v)))
    d, db = scratch(ctx, b.before[step])
    try:
        if kind == 'raise':
            err = run_step(db, step, FaultPlan(k, 'raise'))
            eng.prove(err is not None, 'C20: the injected error surfaces', detail='%s statement %d' % (step, k))
        else:
            code = run_step_killed(db, step, k)
            eng.prove(code == 137, 'C20: child killed at the chosen statement', detail='%s statement %d exit %r' % (step, k, code))
        got = dump(db)
        same_before = got == b.dump_before[step]
        same_after = got == b.dump_after[step]
        eng.prove(same_before or same_after, 'C20: after a failed or killed step the file holds the old or the complete new content',
                  detail='%s, %s at statement %d (%s)' % (step, kind, k, ' '.join(map(str, b.log[step][k]))))
        if same_before:
            err2 = run_step(db, step, FaultPlan())
            eng.prove(err2 is None, 'C20: the step can be run again after the failure', detail='%s: %r' % (step, err2))
            eng.prove(dump(db) == b.dump_after[step], 'C20: the re-run gives the complete result', detail=step)
    finally:
        shutil.rmtree(d, ignore_errors=True)
    eng.note({'t': 'reached'})
    if k == 0:
        eng.note({'t': 'sample', 'v': {'step': step, 'kind': kind, 'statements_in_step': n, 'statement_0': b.log[step][0]}})


def harness_rerun(eng, ctx):
    """A step that has already succeeded is attempted again (it fails on its singleton /
    primary keys, or on an injected fault, or is killed): the file must keep its complete content."""
    b = ctx['bases']
    steps = list(STEPS)
    step = steps[eng.choose(len(steps), 'step')]
    mode = eng.choose(3, 'mode')          # 0: natural failure, 1: injected error, 2: kill
    k = eng.choose(min(b.count[step], 6), 'statement') if mode else 0
    for nm, v in (('step', steps.index(step)), ('mode', mode), ('statement', k)):
        eng._register(nm, symx.SymInt(symx.z3.IntVal(v)))
    d, db = scratch(ctx, b.after[step])
    try:
        if mode == 2:
            run_step_killed(db, step, k)
        else:
            run_step(db, step, FaultPlan(k if mode == 1 else None, 'raise'))
        got = dump(db)
        eng.prove(got == b.dump_after[step], 'C20: a failed attempt to repeat a completed step leaves its result untouched',
                  detail='%s, %s at statement %d: tables that changed %r' % (
                      step, ('natural failure', 'injected error', 'kill')[mode], k, [t for t in got if got[t] != b.dump_after[step].get(t)]))
    finally:
        shutil.rmtree(d, ignore_errors=True)
    eng.note({'t': 'reached'})


def orders():
    import itertools
    first = list(itertools.permutations(['classify', 'set-zeta-grid', 'set-curvature']))
    second = list(itertools.permutations(['rise', 'recession']))
    return [list(a) + list(c) for a in first for c in second]


def harness_order(eng, ctx):
    b = ctx['bases']
    all_orders = orders()
    order = all_orders[eng.choose(len(all_orders), 'order')]
    eng._register('order', symx.SymInt(symx.z3.IntVal(all_orders.index(order))))
    fail_pos = None
    if ctx.get('failed_attempts'):
        fail_pos = eng.choose(len(order) + 1, 'failpos') - 1      # -1: none
        eng._register('failpos', symx.SymInt(symx.z3.IntVal(fail_pos)))
    d, db = scratch(ctx, b.loaded)
    try:
        for i, step in enumerate(order):
            if fail_pos == i:
                kind = ('raise', 'kill')[eng.choose(2, 'kind')]
                k = (b.count[step] * (1 + eng.choose(3, 'where'))) // 4
                if kind == 'raise':
                    run_step(db, step, FaultPlan(k, 'raise'))
                else:
                    run_step_killed(db, step, k)
            err = run_step(db, step, FaultPlan())
            if not eng.prove(err is None, 'C20: step succeeds in this order', detail='%s in %r: %r' % (step, order, err)):
                return
        got = dump(db)
        if 'reference' not in ctx:
            ctx['reference'] = reference_dump(ctx)
        eng.prove(got == ctx['reference'], 'C20: final content does not depend on the order of independent steps / failed attempts',
                  detail='order %r failed attempt at %r: differing tables %r' % (
                      order, fail_pos, [t for t in got if got[t] != ctx['reference'].get(t)]))
    finally:
        shutil.rmtree(d, ignore_errors=True)
    eng.note({'t': 'reached'})


def reference_dump(ctx):
    b = ctx['bases']
    d, db = scratch(ctx, b.loaded)
    try:
        for step in orders()[0]:
            e = run_step(db, step, FaultPlan())
            if e is not None:
                raise RuntimeError('reference order failed at %s: %r' % (step, e))
        return dump(db)
    finally:
        shutil.rmtree(d, ignore_errors=True)


class C20(Check):
    pid = 'C20'
    level = 'fault_enumeration'

    def run(self):
        quick = self.tier == 'quick'
        root = tempfile.mkdtemp(prefix='spowtd-c20-')
        try:
            bases = Bases(root)
            ctx = {'bases': bases, 'root': root}
            ctx['reference'] = reference_dump(ctx)
            self.unit('spowtd.user_interface', 'main', 'set_curvature')
            self.unit('spowtd.classify', 'classify_intervals')
            self.unit('spowtd.zeta_grid', 'populate_zeta_grid')
            self.unit('spowtd.set_curvature', 'set_curvature')
            self.unit('spowtd.rise', 'find_rise_offsets')
            self.unit('spowtd.recession', 'find_recession_offsets')
            self.bounds = {'steps': list(STEPS), 'statements per step (every one is a fault point, plus commit)': dict(bases.count),
                           'fault kinds': ['raise sqlite3.OperationalError before the statement', 'kill the process (os._exit in a forked child) before the statement'],
                           'orders of independent steps': len(orders()), 'repeating a completed step': 'natural failure, injected error or kill at the first 6 statements', 'failed attempts in between': 'none (quick) / one at every position (thorough)',
                           'dataset': 'planted record, 3 storms + 3 recessions, a hole in the level record (two data intervals), a final rainless jump to the record maximum (concrete)'}
            self.assumptions = ['durability below the SQLite API (torn pages, fsync) is SQLite\'s own guarantee', '`load` is outside ("after loading")',
                                'data are concrete: the quantifier is over fault points, fault kinds, orders and failed attempts']
            self.stubs = ['sqlite3 inside spowtd.user_interface -> counting / fault-injecting proxy around the real sqlite3 on a real file']
            self.outside = ['faults inside a single SQL statement', 'two processes writing at once']
            exp = symx.explore(harness_fault, ctx, name='fault_at_every_statement')
            self.absorb(exp, need_paths=10)
            exp = symx.explore(harness_order, dict(ctx, failed_attempts=not quick), name='orders')
            self.absorb(exp, need_paths=12)
            exp = symx.explore(harness_rerun, ctx, name='repeat_completed_step')
            self.absorb(exp, need_paths=5)
            self.extra['evaluations'] = sum(e['paths'] for e in self.explorations)
            self.extra['distinct_nontrivial'] = sum(e['paths'] for e in self.explorations)
            self.extra['rule'] = ('one evaluation = one (step, fault kind, statement index) triple or one (order, failed-attempt position) pair run on '
                                  'a real SQLite file; all are distinct by construction; non-trivial = the fault fires before the step completes')
        finally:
            shutil.rmtree(root, ignore_errors=True)

    def replay(self, failure):
        from vf.framework import model_fractions
        m = model_fractions(failure.get('model'))
        root = tempfile.mkdtemp(prefix='spowtd-c20-replay-')
        info = {'expected': failure.get('detail'), 'label': failure.get('label')}
        try:
            bases = Bases(root)
            ctx = {'bases': bases, 'root': root}
            if failure['harness'].startswith('repeat'):
                step = list(STEPS)[int(m.get('step', 0))]
                mode, k = int(m.get('mode', 0)), int(m.get('statement', 0))
                d, db = scratch(ctx, bases.after[step])
                if mode == 2:
                    run_step_killed(db, step, k)
                else:
                    run_step(db, step, FaultPlan(k if mode == 1 else None, 'raise'))
                got = dump(db)
                info['observed'] = {'step': step, 'mode': mode, 'statement': k, 'tables_changed': [t for t in got if got[t] != bases.dump_after[step].get(t)]}
                return got != bases.dump_after[step], info
            if failure['harness'].startswith('fault'):
                step = list(STEPS)[int(m.get('step', 0))]
                kind = 'raise' if int(m.get('kind', 0)) == 0 else 'kill'
                k = int(m.get('statement', 0))
                d, db = scratch(ctx, bases.before[step])
                if kind == 'raise':
                    run_step(db, step, FaultPlan(k, 'raise'))
                else:
                    run_step_killed(db, step, k)
                got = dump(db)
                info['observed'] = {'step': step, 'kind': kind, 'statement': k,
                                    'equals_before': got == bases.dump_before[step], 'equals_after': got == bases.dump_after[step]}
                bad = not (got == bases.dump_before[step] or got == bases.dump_after[step])
                if not bad and got == bases.dump_before[step]:
                    e2 = run_step(db, step, FaultPlan())
                    info['observed']['rerun'] = repr(e2)
                    bad = e2 is not None or dump(db) != bases.dump_after[step]
                return bad, info
            ref = reference_dump(ctx)
            order = orders()[int(m.get('order', 0))]
            d, db = scratch(ctx, bases.loaded)
            errs = [run_step(db, s, FaultPlan()) for s in order]
            got = dump(db)
            info['observed'] = {'order': order, 'errors': [repr(e) for e in errs if e], 'equal': got == ref}
            return any(errs) or got != ref, info
        finally:
            shutil.rmtree(root, ignore_errors=True)
