"""C08 -- master curves do not depend on arbitrary processing choices."""

import itertools
from fractions import Fraction

import z3

from vf import symx, nplite, loader
from vf.framework import Check, model_fractions
from checks import fit_common


# ---- (a) connected components ---------------------------------------------------
def true_components(levels):
    """levels: {level: set(series)} -> list of (frozenset(levels), frozenset(series))."""
    items = list(levels.items())
    comps = []
    for h, ss in items:
        merged_levels = {h}
        merged_series = set(ss)
        rest = []
        for (lv, sr) in comps:
            if sr & merged_series:
                merged_levels |= lv
                merged_series |= sr
            else:
                rest.append((lv, sr))
        # merging may connect previously separate groups transitively
        changed = True
        while changed:
            changed = False
            keep = []
            for (lv, sr) in rest:
                if sr & merged_series:
                    merged_levels |= lv
                    merged_series |= sr
                    changed = True
                else:
                    keep.append((lv, sr))
            rest = keep
        comps = rest + [(merged_levels, merged_series)]
    return [(frozenset(a), frozenset(b)) for a, b in comps]


def harness_components(eng, ctx):
    S, L = ctx['S'], ctx['L']
    fo = fit_common.load_fit()
    member = {(h, s): bool(eng.bool('m_%d_%d' % (h, s))) for h in range(L) for s in range(S)}
    levels = {}
    for h in range(L):
        ss = {s for s in range(S) if member[(h, s)]}
        if ss:
            levels[10 + h] = ss
    if not levels:
        raise symx.PathAbort('empty mapping')
    # dict insertion order is the order in which regrid produced the levels: arbitrary
    keys = list(levels)
    if ctx.get('orders') and len(keys) > 1:
        perms = list(itertools.permutations(keys))
        keys = list(perms[eng.choose(len(perms), 'order')])
    head_mapping = {k: loader.SymSet(levels[k]) for k in keys}
    try:
        comps = fo.get_connected_components(head_mapping)
        kept = fo.split_mapping_by_keys({k: sorted(levels[k]) for k in keys}, comps[:1])
    except Exception as e:
        eng.fail_exception(e)
        return
    truth = true_components(levels)
    got = [frozenset(int(k) for k in c) for c in comps]
    eng.prove(sorted(map(sorted, got)) == sorted(sorted(lv) for lv, _ in truth),
              'C08: groups are exactly the chains of overlapping intervals', detail='%r vs %r' % (got, truth))
    big = max(len(lv) for lv, _ in truth)
    eng.prove(len(got[0]) == big, 'C08: the main body is a largest group')
    eng.prove(len(kept) == 1 and set(int(k) for k in kept[0]) == set(got[0]),
              'C08: exactly the levels of the main body are kept')
    eng.note({'t': 'reached'})


# ---- (b) invariance of get_series_time_offsets --------------------------------------
VALUE_SETS = {
    'quick': [Fraction(1, 2), Fraction(3, 2), Fraction(5, 2), Fraction(1)],
    'thorough': [Fraction(-1, 2), Fraction(1, 2), Fraction(3, 2), Fraction(5, 2), Fraction(1), Fraction(2)],
}


def make_series(eng, ctx, tag=''):
    """Series with concrete level patterns (chosen by the engine) and symbolic abscissae."""
    shapes = ctx['shapes']
    vals = ctx['values']
    series = []
    pats = ctx.get('patterns')
    for i, n in enumerate(shapes):
        if pats:
            H = list(pats[eng.choose(len(pats), 'P')])
        else:
            H = [vals[eng.choose(len(vals), 'H')] for _ in range(n)]
        t = [eng.real('t%d_%d' % (i, k)) for k in range(n)]
        for a, b in zip(t, t[1:]):
            eng.assume(a < b)
        for k, h in enumerate(H):
            # engine choices are not model values: record them so that a failure replays directly
            eng._register('H%d_%d' % (i, k), symx.SymReal(z3.RealVal(h)))
        series.append((t, H))
    return series


def run_offsets(fo, series, step):
    lst = [(nplite.array(t), nplite.array(H)) for t, H in series]
    return fo.get_series_time_offsets(lst, step)


def series_components(series, step):
    """Reference: overlap structure from the concrete level patterns."""
    import math
    lv = {}
    for i, (_, H) in enumerate(series):
        for a, b in zip(H, H[1:]):
            A, B = a / step, b / step
            lo, hi = min(A, B), max(A, B)
            for m in range(math.ceil(lo), math.ceil(hi)):
                lv.setdefault(m, set()).add(i)
    return lv


SINGLE = 'C08: a main body of one interval is not assembled'
TIE = 'C08: two equally large groups - which one is kept depends on the presentation order'


def may_pick_single(lv):
    """Is some group with the maximal number of levels made of a single interval?"""
    comps = true_components(lv)
    big = max(len(a) for a, _ in comps)
    return any(len(b) == 1 for a, b in comps if len(a) == big)


def harness_invariance(eng, ctx):
    fo = fit_common.load_fit()
    step = ctx['step']
    series = make_series(eng, ctx)
    n = len(series)
    lv = series_components(series, step)
    try:
        idx1, off1, map1 = run_offsets(fo, series, step)
    except Exception as e:
        if not lv:
            raise symx.PathAbort('no series crosses a level (nothing to assemble; outside the property)')
        if may_pick_single(lv):
            eng.fail_exception(e, label=SINGLE)
            return
        eng.fail_exception(e)
        return
    idx1 = [int(i) for i in idx1]
    off1 = dict(zip(idx1, list(off1)))
    comps = true_components(lv)
    comp_of_result = [c for c in comps if set(idx1) & c[1]]
    # included series = the series of one whole group; no group has more levels
    ok = eng.prove(len(comp_of_result) == 1, 'C08: all included intervals belong to one group')
    if not ok:
        return
    body_levels, body_series = comp_of_result[0]
    multi = {i for m in body_levels for i in lv[m] if len(lv[m]) > 1}
    eng.prove(set(idx1) == set(body_series) or set(idx1) == multi,
              'C08: every interval of the main body is included, nothing else',
              detail='included %r body %r' % (sorted(idx1), sorted(body_series)))
    eng.prove(all(len(a) <= len(body_levels) or len(b) <= len(body_series) for a, b in comps),
              'C08: no other group is larger than the main body')
    shared = {m for m in body_levels if len(lv[m]) > 1}
    eng.prove(shared <= set(int(k) for k in map1) <= set(body_levels),
              'C08: output levels are levels of the main body and include every shared level')
    for m, entries in map1.items():
        eng.prove(sorted(int(s) for s, _ in entries) == sorted(lv[int(m)]),
                  'C08: level lists exactly the intervals crossing it')
    # second run: permuted order, per-series axis shift
    perms = list(itertools.permutations(range(n)))
    if ctx.get('few_perms'):
        perms = [tuple(range(n)), tuple(reversed(range(n))), tuple(range(1, n)) + (0,)]
    perm = perms[eng.choose(len(perms), 'perm')]
    for i, pi in enumerate(perm):
        eng._register('perm%d' % i, symx.SymInt(z3.IntVal(pi)))
    shifts = [eng.real('shift%d' % i) for i in range(n)]
    series2 = [([v + shifts[i] for v in series[i][0]], series[i][1]) for i in perm]
    try:
        idx2, off2, map2 = run_offsets(fo, series2, step)
    except Exception as e:
        eng.fail_exception(e, label=SINGLE if may_pick_single(lv) else 'C08: permuted / shifted run fails')
        return
    idx2 = [perm[int(i)] for i in idx2]          # back to the original numbering
    off2 = dict(zip(idx2, list(off2)))
    big = max(len(a) for a, _ in comps)
    tie = sum(1 for a, _ in comps if len(a) == big) > 1
    lab = (TIE if tie else 'C08: same intervals included after permutation / axis shift')
    if not eng.prove(sorted(idx2) == sorted(idx1), lab, detail='%r vs %r' % (sorted(idx1), sorted(idx2))):
        return
    eng.prove(set(int(k) for k in map2) == set(int(k) for k in map1), 'C08: same levels after permutation')
    # aligned value of interval s at level m: offset + crossing.  The property allows the
    # two runs to differ by ONE common constant K (choice of internal zero / origin).
    K = None
    for m in map1:
        a = {int(s): v for s, v in map1[m]}
        b = {perm[int(s)]: v for s, v in map2[int(m)]}
        if not eng.prove(sorted(a) == sorted(b), 'C08: same intervals per level after permutation'):
            continue
        for s in sorted(a):
            if s not in off1 or s not in off2:
                continue
            d = (off2[s] + b[s]) - (off1[s] + a[s])
            if K is None:
                K = d
            else:
                eng.prove(d == K, 'C08: aligned crossings unchanged (up to one common constant) by order / axis shift / internal zero',
                          detail='level %r series %d' % (m, s))
        if all(s in off1 and s in off2 for s in a) and K is not None:
            m1 = sum((off1[s] + a[s] for s in sorted(a)), Fraction(0)) / len(a)
            m2 = sum((off2[s] + b[s] for s in sorted(b)), Fraction(0)) / len(b)
            eng.prove((m2 - m1) == K, 'C08: master curve unchanged up to the common origin')
    eng.note({'t': 'reached'})
    key = hash((tuple(tuple(H) for _, H in series), perm)) ^ ctx.get('seed', 0)
    if key % ctx.get('replay_every', 9) == 0:
        w = eng.witness()
        if w is not None:
            ok, info = replay_invariance(ctx, series, perm, model_fractions(w))
            eng.note({'t': 'witness', 'n': 1})
            if not ok:
                eng.note({'t': 'witness_mismatch', 'v': info})
            elif len(idx1) >= 2 and key % 4 == 0:
                eng.note({'t': 'sample', 'v': info})


def concrete_series(series, m, shifts=None, perm=None):
    import numpy as np
    out = []
    order = perm if perm is not None else range(len(series))
    for i in order:
        t, H = series[i]
        tv = [float(m.get('t%d_%d' % (i, k), k)) + (float(m.get('shift%d' % i, 0)) if shifts else 0.0)
              for k in range(len(t))]
        out.append((np.array(tv), np.array([float(h) for h in H])))
    return out


def replay_invariance(ctx, series, perm, m):
    real = loader.real_module('spowtd.fit_offsets')
    step = float(ctx['step'])
    s1 = concrete_series(series, m)
    s2 = concrete_series(series, m, shifts=True, perm=perm)
    info = {'series': [(a.tolist(), b.tolist()) for a, b in s1], 'perm': list(perm),
            'shifts': [float(m.get('shift%d' % i, 0)) for i in range(len(series))]}
    try:
        i1, o1, m1 = real.get_series_time_offsets(s1, step)
        i2, o2, m2 = real.get_series_time_offsets(s2, step)
    except Exception as e:
        info['real_exception'] = '%s: %s' % (type(e).__name__, e)
        return False, info
    i2 = [perm[int(i)] for i in i2]
    d1 = dict(zip([int(i) for i in i1], [float(v) for v in o1]))
    d2 = dict(zip(i2, [float(v) for v in o2]))
    info['offsets'] = d1
    info['offsets_permuted'] = d2
    if sorted(d1) != sorted(d2):
        return False, info
    scale = max([1.0] + [abs(v) for a, _ in s1 for v in a.tolist()] + [abs(v) for a, _ in s2 for v in a.tolist()])
    return aligned_ok(d1, d2, m1, m2, perm, scale) is None, info


def aligned_ok(d1, d2, m1, m2, perm, scale):
    """None when offset+crossing agrees between the two runs up to one constant."""
    K = None
    if set(int(k) for k in m1) != set(int(k) for k in m2):
        return 'levels differ between the runs'
    for m in m1:
        a = {int(s): float(v) for s, v in m1[m]}
        b = {perm[int(s)]: float(v) for s, v in m2[m]}
        if sorted(a) != sorted(b):
            return 'level %r lists different intervals' % (m,)
        for s in a:
            if s not in d1 or s not in d2:
                continue
            d = (d2[s] + b[s]) - (d1[s] + a[s])
            if K is None:
                K = d
            elif abs(d - K) > 1e-7 * scale:
                return 'aligned crossing of interval %d at level %r moved by %g, others by %g' % (s, m, d, K)
    return None


class C08(Check):
    pid = 'C08'

    def run(self):
        quick = self.tier == 'quick'
        self.unit('spowtd.fit_offsets', 'get_series_time_offsets', 'build_head_mapping', 'get_connected_components',
                  'split_mapping_by_keys', 'find_offsets')
        self.unit('spowtd.regrid', 'regrid')
        inc = [(3, 3)] if quick else [(3, 3), (4, 3), (3, 4), (4, 4)]
        shapes = [(2, 2), (2, 2, 2), (3, 2), (3, 3)] if quick else [(2, 2), (2, 2, 2), (3, 2), (3, 3), (3, 2, 2)]
        vals = VALUE_SETS['quick'] if quick else VALUE_SETS['thorough']
        steps = [Fraction(1)] if quick else [Fraction(1), Fraction(1, 2)]
        self.bounds = {'incidence (series x levels), every pattern and level order': inc,
                       'series shapes (samples per series)': shapes, 'level values': [str(v) for v in vals],
                       'abscissae': 'any strictly increasing reals', 'permutations': 'all', 'axis shifts': 'any real per series',
                       'grid step': [str(s) for s in steps]}
        self.assumptions = ['R-mode ("up to rounding" in the property is the gap between reals and doubles; witness replays '
                            'compare the real code to 1e-7 relative)',
                            'level patterns are concrete values from a small set (control flow depends on them only); abscissae symbolic']
        self.stubs = fit_common.STUBS
        self.outside = ['series with more than 3 samples / more than 4 series', 'symbolic level values']
        for (S, L) in inc:
            exp = symx.explore(harness_components, {'S': S, 'L': L, 'orders': L <= 3}, name='components[%dx%d]' % (S, L))
            self.absorb(exp, need_paths=2)
        for step in steps:
            for sh in shapes:
                vs = vals if (len(sh) <= 2 and sum(sh) <= 5) or not quick else vals[:3]
                if not quick and sum(sh) >= 6:
                    vs = vals[1:4] if sum(sh) >= 7 else vals[1:5]
                exp = symx.explore(harness_invariance,
                                   {'shapes': sh, 'values': vs, 'step': step, 'seed': self.seed, 'replay_every': 9,
                                    'single_series_total': True},
                                   name='offsets[shape=%s,step=%s]' % (''.join(map(str, sh)), step))
                self.absorb(exp, need_paths=2)
        # four series (two groups of two can abut without sharing a level): two-sample
        # patterns only, three presentation orders
        half = Fraction(1, 2)
        pats = [(a * half, b * half) for a in (1, 3, 5) for b in (1, 3, 5) if a < b]
        if not quick:
            pats = [(a * half, b * half) for a in (1, 3, 5) for b in (1, 3, 5) if a != b] + [(Fraction(1), Fraction(2)), (half, half)]
        exp = symx.explore(harness_invariance,
                           {'shapes': (2, 2, 2, 2), 'values': vals, 'patterns': pats, 'few_perms': True, 'step': Fraction(1),
                            'seed': self.seed, 'replay_every': 9, 'single_series_total': True},
                           name='offsets[shape=2222,step=1]')
        self.absorb(exp, need_paths=2)
        self.bounds['four series'] = 'two-sample patterns %s, 3 presentation orders' % [tuple(str(v) for v in q) for q in pats]
        for f in self.failures:
            f['ctx'] = f['harness']

    def replay(self, failure):
        h = failure['harness']
        m = model_fractions(failure.get('model'))
        info = {'expected': failure.get('detail'), 'label': failure.get('label')}
        if h.startswith('components'):
            S, L = [int(x) for x in h.split('[')[1].rstrip(']').split('x')]
            real = loader.real_module('spowtd.fit_offsets')
            levels = {}
            for hh in range(L):
                ss = {s for s in range(S) if m.get('m_%d_%d' % (hh, s))}
                if ss:
                    levels[10 + hh] = ss
            info['entry'] = 'spowtd.fit_offsets.get_connected_components'
            info['levels'] = {k: sorted(v) for k, v in levels.items()}
            for order in itertools.permutations(list(levels)):
                try:
                    comps = real.get_connected_components({k: set(levels[k]) for k in order})
                except Exception as e:
                    info['observed'] = '%s: %s' % (type(e).__name__, e)
                    if failure.get('kind') == 'exception':
                        return True, info
                    continue
                truth = true_components(levels)
                got = [frozenset(c) for c in comps]
                if sorted(map(sorted, got)) != sorted(sorted(lv) for lv, _ in truth) or \
                        len(got[0]) != max(len(lv) for lv, _ in truth):
                    info['observed'] = {'order': order, 'components': [sorted(c) for c in got]}
                    return failure.get('kind') != 'exception', info
            info['observed'] = 'no level order reproduces it'
            return False, info
        # invariance harness: the concrete level patterns are not in the model (they are
        # engine choices); they are recorded in the failure detail when available
        return replay_invariance_failure(failure, m, info)


def replay_invariance_failure(failure, m, info):
    """Re-run get_series_time_offsets of the real module on the failing level patterns,
    abscissae, order and shifts (all recorded in the model)."""
    import re
    h = failure['harness']
    mm = re.match(r'offsets\[shape=(\d+),step=([^\]]+)\]', h)
    shapes = tuple(int(c) for c in mm.group(1))
    step = Fraction(mm.group(2))
    real = loader.real_module('spowtd.fit_offsets')
    n = len(shapes)
    info['entry'] = 'spowtd.fit_offsets.get_series_time_offsets'
    series = [([None] * k, [Fraction(m.get('H%d_%d' % (i, j), 0)) for j in range(k)]) for i, k in enumerate(shapes)]
    perm = tuple(int(m.get('perm%d' % i, i)) for i in range(n))
    lv = series_components(series, step)
    s1 = concrete_series(series, m)
    s2 = concrete_series(series, m, shifts=True, perm=perm)
    info['series'] = [(a.tolist(), b.tolist()) for a, b in s1]
    info['perm'] = perm
    res = []
    for sx in (s1, s2):
        try:
            res.append(real.get_series_time_offsets(sx, float(step)))
        except Exception as e:
            info['observed'] = '%s: %s' % (type(e).__name__, e)
            if failure.get('kind') == 'exception' and failure['detail'].startswith(type(e).__name__):
                return (may_pick_single(lv) if lv else False) == ('one interval' in failure.get('label', '')), info
            return False, info
    if failure.get('kind') == 'exception':
        info['observed'] = 'no exception'
        return False, info
    (i1, o1, m1), (i2, o2, m2) = res
    i2 = [perm[int(i)] for i in i2]
    d1 = dict(zip([int(i) for i in i1], [float(v) for v in o1]))
    d2 = dict(zip(i2, [float(v) for v in o2]))
    comps = true_components(lv)
    body = [c for c in comps if set(d1) & c[1]]
    bad = None
    if len(body) != 1:
        bad = 'included intervals span several groups'
    else:
        bl, bs = body[0]
        multi = {i for mlev in bl for i in lv[mlev] if len(lv[mlev]) > 1}
        if set(d1) != set(bs) and set(d1) != multi:
            bad = 'included %r but main body is %r' % (sorted(d1), sorted(bs))
        elif any(len(a) > len(bl) and len(b) > len(bs) for a, b in comps):
            bad = 'a larger group exists'
        elif not ({mlev for mlev in bl if len(lv[mlev]) > 1} <= set(int(k) for k in m1) <= set(bl)):
            bad = 'output levels are not main body levels / miss a shared level'
    if bad is None and sorted(d1) != sorted(d2):
        bad = 'different intervals after permutation: %r vs %r' % (sorted(d1), sorted(d2))
    if bad is None:
        scale = max([1.0] + [abs(v) for a, _ in s1 + s2 for v in a.tolist()])
        bad = aligned_ok(d1, d2, m1, m2, perm, scale)
    info['observed'] = {'offsets': d1, 'offsets_permuted': d2, 'problem': bad}
    return bool(bad), info


