"""Database states satisfying the representation invariant that `spowtd load`
establishes (Inv_load), built directly in symsql, plus the inverse: three CSV
texts that make the real `spowtd load` produce a given (concrete) state.

Inv_load (proved for load itself by C10; checked here against the real load on
every validity pattern by ``conform_patterns``):
  * grid instants t_0 .. t_G uniformly spaced (t_G is the closing instant);
  * every instant carries either NULL (strictly inside a gap of the level record)
    or the label of its gap-free stretch; labels increase along the record;
  * one rain row and one ET row [t_i, t_i + step) for every i < G;
  * one water-level row for every labelled instant except the closing one.
"""

import os
from fractions import Fraction

from vf import symx, symsql, loader, pipeline

SCHEMA_PATH = os.path.join(loader.REPO, 'spowtd', 'schema.sql')


def schema_text():
    with open(SCHEMA_PATH) as f:
        return f.read()


def labels_of(valid, brk=()):
    """Validity flags (concrete bools) -> label per instant (None inside gaps).

    brk: indices b such that a gap of the level record lies strictly between the valid instants
    b and b+1 without containing a grid instant (a logger faster than the grid that misses a few
    readings): the label changes although no instant is NULL."""
    out = []
    lab = 0
    prev = False
    for i, v in enumerate(valid):
        if v:
            if not prev or (i - 1) in brk:
                lab += 1
            out.append(lab)
        else:
            out.append(None)
        prev = v
    return out


def build(conn, epochs, valid, rain, et, zeta, step_s, tz='UTC', brk=()):
    """Populate a symsql connection with an Inv_load state.

    epochs: G+1 instants (ints or SymInts); valid: G+1 concrete bools; rain/et: G
    values; zeta: G+1 values (used where valid and not the closing instant)."""
    cur = conn.cursor()
    cur.executescript(schema_text())
    G = len(epochs) - 1
    cur.execute('INSERT INTO time_grid (source_time_zone, time_step_s) VALUES (?, ?)', (tz, step_s))
    labels = labels_of(valid, brk)
    for t, lab in zip(epochs, labels):
        cur.execute('INSERT INTO grid_time (epoch, data_interval) VALUES (?, ?)', (t, lab))
    for i in range(G):
        cur.execute('INSERT INTO rainfall_intensity (from_epoch, thru_epoch, rainfall_intensity_mm_h) VALUES (?, ?, ?)',
                    (epochs[i], epochs[i + 1], rain[i]))
        cur.execute('INSERT INTO evapotranspiration (from_epoch, thru_epoch, evapotranspiration_mm_h) VALUES (?, ?, ?)',
                    (epochs[i], epochs[i + 1], et[i]))
        cur.execute('INSERT INTO rainfall_intensity_staging (epoch, rainfall_intensity_mm_h) VALUES (?, ?)', (epochs[i], rain[i]))
        if valid[i]:
            cur.execute('INSERT INTO water_level (epoch, zeta_mm) VALUES (?, ?)', (epochs[i], zeta[i]))
    conn.commit()
    conn.db.foreign_keys = False      # a new connection: the later sub-commands never enable them
    return labels


def texts_for(epochs, valid, rain, et, zeta, step_s, utc_offset_s=0, brk=()):
    """Three CSV texts from which the real `spowtd load` produces the state above.

    The level record is sampled at one third of the grid step: around every valid
    instant t_i the samples t_i - h, t_i, t_i + h are present, so consecutive valid
    instants are joined without a gap and an invalid instant lies strictly inside
    one.  Lone samples just outside the grid make the first / closing instant
    invalid when requested."""
    from vf.synth import fmt_time, fmt_num
    assert step_s % 3 == 0
    h = step_s // 3
    G = len(epochs) - 1
    p = ['Datetime,Precipitation intensity (mm/h)']
    e = ['Datetime,Evapotranspiration (mm/h)']
    for i in range(G):
        p.append('%s,%s' % (fmt_time(epochs[i], utc_offset_s), fmt_num(rain[i])))
    for i in range(G + 1):
        e.append('%s,%s' % (fmt_time(epochs[i], utc_offset_s), fmt_num(et[min(i, G - 1)])))
    samples = {}

    def val(i):
        return Fraction(zeta[i])
    for i in range(G + 1):
        if not valid[i]:
            continue
        samples[epochs[i]] = val(i)
        if i > 0 and (i - 1) not in brk:
            samples.setdefault(epochs[i] - h, (2 * val(i) + val(i - 1)) / 3 if valid[i - 1] else val(i))
        if i < G and i not in brk:
            samples.setdefault(epochs[i] + h, (2 * val(i) + val(i + 1)) / 3 if valid[i + 1] else val(i))
    first_valid = next((i for i in range(G + 1) if valid[i]), None)
    if not valid[0]:
        samples[epochs[0] - h] = Fraction(0) if first_valid is None else val(first_valid)
    if not valid[G]:
        last_valid = max((i for i in range(G + 1) if valid[i]), default=None)
        samples[epochs[G] + h] = Fraction(0) if last_valid is None else val(last_valid)
    elif G >= 1 and not valid[G - 1]:
        pass
    z = ['Datetime,Water level (mm)']
    for t in sorted(samples):
        z.append('%s,%s' % (fmt_time(t, utc_offset_s), fmt_num(samples[t])))
    return '\n'.join(p) + '\n', '\n'.join(e) + '\n', '\n'.join(z) + '\n'


def realisable(valid):
    """Patterns the text generator can realise through the real load.

    The gap rule of load compares sample spacings with the *minimal* spacing, so at
    least one pair of neighbouring samples must exist, which the generator always
    provides for a valid instant that is not alone at the very edge."""
    return any(valid)


def conform_patterns(G=3, step_s=1800, origin=1577836800):
    """Every validity pattern of G+1 instants: real `spowtd load` on the generated texts
    must produce exactly the constructed state.  Returns mismatch descriptions."""
    import itertools
    problems = []
    n = 0
    epochs = [origin + i * step_s for i in range(G + 1)]
    rain = [Fraction(i % 3) for i in range(G)]
    et = [Fraction(1, 8)] * G
    zeta = [Fraction(10 + 3 * i - (i * i) % 5) for i in range(G + 1)]
    for valid in itertools.product([False, True], repeat=G + 1):
        if not realisable(valid):
            continue
        texts = texts_for(epochs, valid, rain, et, zeta, step_s)
        with pipeline.RealRun(texts) as rr:
            err = rr.load()
            if err is not None:
                problems.append('%r: real load failed: %r' % (valid, err))
                continue
            real = rr.dump()
        with symx.single_path():
            conn = symsql.Connection()
            build(conn, epochs, valid, rain, et, zeta, step_s)
            sym = pipeline.sym_dump(conn)
        for tname in ('grid_time', 'rainfall_intensity', 'evapotranspiration', 'water_level', 'time_grid'):
            d = pipeline.compare_dumps({tname: real[tname]}, {tname: sym[tname]})
            if d:
                # labels may be numbered differently (empty stretches skip numbers): compare structure
                if tname == 'grid_time':
                    ra = [r[1] for r in real[tname]]
                    sa = [r[1] for r in sorted(sym[tname])]
                    if [x is None for x in ra] == [x is None for x in sa] and \
                            all((ra[i] == ra[j]) == (sa[i] == sa[j]) for i in range(len(ra)) for j in range(len(ra))
                                if ra[i] is not None and ra[j] is not None):
                        continue
                problems.append('%r: %s' % (valid, d[0]))
        n += 1
    return problems, n
