"""C07 -- results do not depend on the time origin.

(a1) R-mode, relational: the same symbolic record is classified at origin e and at
     e + delta (both symbolic integers); every table must be equal up to the shift.
(a2) R-mode, whole workflow (classify, set-zeta-grid, rise, recession) on a planted
     concrete record at symbolic origin e and e + delta.
(b)  F-mode, bit-precise doubles: the rise flags computed by classify_interstorms
     (captured where they are handed to get_mystery_jump_mask) for symbolic Float64
     water levels and threshold at origins e and e + k*step must be the same
     Boolean terms / equivalent for all 32-bit epochs.
"""

from fractions import Fraction

import z3

from vf import symx, symsql, loader, nplite, pipeline, synth
from vf.framework import Check, model_fractions
from checks import dbstate, classify_db

EPOCH_MAX = 2 ** 31


def is_epoch_col(name):
    return 'epoch' in name


def compare_shifted(eng, db1, db2, delta, label):
    ok = True
    for name, t1 in db1.tables.items():
        t2 = db2.tables[name]
        if not eng.prove(len(t1.rows) == len(t2.rows), '%s: table %s has the same number of rows' % (label, name),
                         detail='%d vs %d' % (len(t1.rows), len(t2.rows))):
            ok = False
            continue
        for r1, r2 in match_rows(t1, t2, delta):
            for c in t1.colnames:
                a, b = r1[c], r2[c]
                if a is None or b is None:
                    ok = eng.prove(a is None and b is None, '%s: %s.%s NULL in both' % (label, name, c)) and ok
                elif is_epoch_col(c):
                    ok = eng.prove((b - a) == delta, '%s: epochs shift by exactly the origin shift' % label,
                                   detail='%s.%s' % (name, c)) and ok
                elif isinstance(a, str) or isinstance(b, str):
                    ok = eng.prove(a == b, '%s: %s.%s unchanged' % (label, name, c)) and ok
                else:
                    ok = eng.prove(a == b, '%s: values unchanged by the origin shift' % label, detail='%s.%s' % (name, c)) and ok
    return ok


def match_rows(t1, t2, delta):
    """Pair rows of the two runs by their key columns (set.pop order may differ between
    the runs on a path, which changes insertion order only)."""
    keys = t1.pk or [c for c in t1.colnames if is_epoch_col(c)][:1] or t1.colnames[:1]
    rest = list(t2.rows)
    out = []
    for r1 in t1.rows:
        hit = None
        for r2 in rest:
            ok = True
            for c in keys:
                a, b = r1[c], r2[c]
                if a is None or b is None:
                    ok = a is None and b is None
                elif is_epoch_col(c):
                    ok = z3.is_true(z3.simplify(symx.zbool((b - a) == delta)))
                elif isinstance(a, symx.Sym) or isinstance(b, symx.Sym):
                    ok = z3.is_true(z3.simplify(symx.zbool(a == b)))
                else:
                    ok = (a == b)
                if not ok:
                    break
            if ok:
                hit = r2
                break
        if hit is None:
            hit = rest[0]
        rest.remove(hit)
        out.append((r1, hit))
    return out


def origins(eng, step):
    e = eng.int('origin')
    d = eng.int('shift')
    eng.assume(e >= 0)
    eng.assume(e < EPOCH_MAX)
    eng.assume(e + d >= 0)
    eng.assume(e + d < EPOCH_MAX)
    return e, d


# ---- (a1) ----------------------------------------------------------------------------
def harness_a1(eng, ctx):
    nplite.set_float_mode('R')
    G, step = ctx['G'], ctx['step_s']
    cl = loader.load('spowtd.classify', 'R')
    e, d = origins(eng, step)
    _, valid, rain, et, zeta, thr_rain, thr_jump = classify_db.make_state(eng, dict(ctx, origin=0))
    dbs = []
    for o in (e, e + d):
        epochs = [o + i * step for i in range(G + 1)]
        conn = symsql.Connection()
        dbstate.build(conn, epochs, valid, rain, et, zeta, step)
        try:
            cl.classify_intervals(conn, thr_rain, thr_jump)
        except Exception as ex:
            if dbs:
                eng.fail_exception(ex, label='C07: classification fails only at the shifted origin')
            # a failure at both origins alike is C01's business
            return
        dbs.append(conn.db)
    compare_shifted(eng, dbs[0], dbs[1], d, 'C07 classify')
    eng.note({'t': 'reached'})


# ---- (a2) ---------------------------------------------------------------------------------
def planted_texts(step_s):
    rec = synth.planted_record(step_s=step_s, recessions=((1, 7), (0, 8), (3, 9)))
    return rec


def harness_a2(eng, ctx):
    nplite.set_float_mode('R')
    step = ctx['step_s']
    m = pipeline.sym_modules('R')
    e, d = origins(eng, step)
    rec = planted_texts(step)
    G = len(rec['rain']) - 1
    valid = [True] * (G + 1)
    dbs = []
    for o in (e, e + d):
        epochs = [o + i * step for i in range(G + 1)]
        conn = symsql.Connection()
        dbstate.build(conn, epochs, valid, rec['rain'][:G], rec['et'][:G], rec['zeta'][:G + 1], step)
        try:
            m['classify'].classify_intervals(conn, Fraction(2), Fraction(4))
            m['zeta_grid'].populate_zeta_grid(conn, Fraction(ctx.get('grid', 1)))
            m['rise'].find_rise_offsets(conn, None)
            m['recession'].find_recession_offsets(conn, None)
        except Exception as ex:
            eng.fail_exception(ex, label='C07: workflow fails at a symbolic origin')
            return
        dbs.append(conn.db)
    n_rows = sum(len(t.rows) for t in dbs[0].tables.values())
    eng.prove(len(dbs[0].tables['recession_interval'].rows) >= 2 and len(dbs[0].tables['rising_interval'].rows) >= 2,
              'C07: planted record yields master curves (harness sanity)')
    compare_shifted(eng, dbs[0], dbs[1], d, 'C07 workflow')
    eng.note({'t': 'reached'})
    eng.note({'t': 'sample', 'v': {'harness': 'a2', 'step_s': step, 'rows_compared': n_rows}})


# ---- (b) F-mode ------------------------------------------------------------------------------
class _Captured(BaseException):
    pass


def harness_b(eng, ctx):
    nplite.set_float_mode('F')
    try:
        _harness_b(eng, ctx)
    finally:
        nplite.set_float_mode('R')


def _harness_b(eng, ctx):
    step, n = ctx['step_s'], ctx['n']
    cl = loader.load('spowtd.classify', 'F')
    e = eng.fint('origin', 0, EPOCH_MAX - 1)
    k = eng.fint('shift_steps', -(EPOCH_MAX // step), EPOCH_MAX // step)
    ebv, kbv = eng.fbv('origin'), eng.fbv('shift_steps')
    for _c in (ebv + kbv * step >= 0, ebv + (n + 1) * step < EPOCH_MAX,
               ebv + kbv * step + (n + 1) * step < EPOCH_MAX):
        eng._assert(_c)
    zeta = [eng.f64('zeta%d' % i) for i in range(n + 1)]
    thr = eng.f64('thr_jump')
    big = 1.0e6
    small = 2.0 ** -10
    for z in zeta:
        eng.assume(z >= small)
        eng.assume(z <= big)
    eng.assume(thr >= small)
    eng.assume(thr <= big)
    caps = []
    original = cl.get_mystery_jump_mask

    def spy(is_jump, is_raining):
        caps.append([symx.zbool(v) for v in is_jump])
        raise _Captured()
    cl.get_mystery_jump_mask = spy
    try:
        for o in (e, e + k * step):
            epochs = [o + i * step for i in range(n + 1)]
            conn = symsql.Connection()
            dbstate.build(conn, epochs, [True] * (n + 1), [0.0] * n, [0.125] * n, zeta, step)
            try:
                cl.classify_interstorms(conn.cursor(), 1, thr)
            except _Captured:
                pass
            except Exception as ex:
                eng.fail_exception(ex, label='C07: classify_interstorms fails in double precision')
                return
    finally:
        cl.get_mystery_jump_mask = original
    if not eng.prove(len(caps) == 2 and len(caps[0]) == len(caps[1]) == n, 'C07: rise flags captured at both origins'):
        return
    for i in range(n):
        eng.prove_same_under_shift(caps[0][i], caps[1][i], ['origin!bv', 'shift_steps!bv'],
                                   'C07: rise flag does not depend on the origin (double precision)',
                                   detail='increment ending at sample %d, step %d s' % (i, step))
    eng.note({'t': 'reached'})
    eng.note({'t': 'sample', 'v': {'harness': 'b', 'step_s': step, 'flag_term': str(z3.simplify(caps[0][min(1, n - 1)]))[:300]}})


def harness_b2(eng, ctx):
    """The increment threshold that match_all_storms hands to match_storms, in doubles."""
    nplite.set_float_mode('F')
    try:
        step, n = ctx['step_s'], ctx['n']
        cl = loader.load('spowtd.classify', 'F')
        e = eng.fint('origin', 0, EPOCH_MAX - 1)
        k = eng.fint('shift_steps', -(EPOCH_MAX // step), EPOCH_MAX // step)
        ebv, kbv = eng.fbv('origin'), eng.fbv('shift_steps')
        for _c in (ebv + kbv * step >= 0, ebv + (n + 1) * step < EPOCH_MAX, ebv + kbv * step + (n + 1) * step < EPOCH_MAX):
            eng._assert(_c)
        thr = eng.f64('thr_jump')
        eng.assume(thr >= 2.0 ** -10)
        eng.assume(thr <= 1.0e6)
        caps = []
        original = cl.match_storms

        def spy(rain, head, rain_threshold, jump_threshold):
            caps.append(jump_threshold)
            raise _Captured()
        cl.match_storms = spy
        try:
            for o in (e, e + k * step):
                epochs = [o + i * step for i in range(n + 1)]
                conn = symsql.Connection()
                dbstate.build(conn, epochs, [True] * (n + 1), [0.0] * n, [0.125] * n, [float(10 + i) for i in range(n + 1)], step)
                try:
                    cl.match_all_storms(conn.cursor(), 1, 4.0, thr)
                except _Captured:
                    pass
                except Exception as ex:
                    eng.fail_exception(ex, label='C07: match_all_storms fails in double precision')
                    return
        finally:
            cl.match_storms = original
        if not eng.prove(len(caps) == 2, 'C07: increment threshold captured at both origins'):
            return
        a, b = (symx._lift_f64(c) for c in caps)
        eng.prove_same_under_shift(a, b, ['origin!bv', 'shift_steps!bv'],
                                   'C07: rise increment threshold does not depend on the origin (double precision)',
                                   detail='step %d s' % step)
        eng.note({'t': 'reached'})
    finally:
        nplite.set_float_mode('R')


def replay_b2(failure, step):
    """Two real runs of match_all_storms's threshold: recorded by wrapping match_storms."""
    import sqlite3
    m = model_fractions(failure.get('model'))
    e, k = int(m.get('origin', 0)), int(m.get('shift_steps', 0))
    thr = float(m.get('thr_jump', 1.0))
    real = loader.real_module('spowtd.classify')
    got = []
    orig = real.match_storms

    def spy(rain, head, rt, jt):
        got.append(float(jt))
        return orig(rain, head, rt, jt)
    real.match_storms = spy
    info = {'origins': [e, e + k * step], 'thr_jump_mm_h': thr, 'step_s': step}
    try:
        for o in (e, e + k * step):
            # the same stretch as in the harness: 4 grid instants, 3 joined samples
            epochs = [o + i * step for i in range(4)]
            texts = dbstate.texts_for(epochs, [True] * 4, [Fraction(0)] * 3, [Fraction(1, 8)] * 3, [Fraction(10 + i) for i in range(4)], step)
            with pipeline.RealRun(texts) as rr:
                err = rr.load() or rr.classify(4.0, thr)
                if err is not None:
                    info['error'] = repr(err)
                    return False, info
    finally:
        real.match_storms = orig
    info['increment_threshold_mm'] = got
    return len(got) == 2 and got[0] != got[1], info


def replay_b(failure, step, n):
    """Two real CLI runs (load + classify) of the same record at the two origins."""
    m = model_fractions(failure.get('model'))
    e = int(m.get('origin', 0))
    k = int(m.get('shift_steps', 0))
    zeta = [m.get('zeta%d' % i, 0.0) for i in range(n + 1)]
    zeta = [float(z) for z in zeta]
    thr = float(m.get('thr_jump', 1.0))
    info = {'origins': [e, e + k * step], 'step_s': step, 'zeta_mm': zeta, 'thr_jump_mm_h': thr,
            'commands': ['spowtd load', 'spowtd classify -s 1000 -j <thr>'], 'expected': failure.get('detail')}
    flags = []
    for o in (e, e + k * step):
        # a dry lead-in step keeps the record loadable whatever the flags are
        epochs = [o + i * step for i in range(n + 2)]
        rain = [Fraction(0)] * (n + 1)
        z = [Fraction(v) for v in zeta] + [Fraction(zeta[-1])]
        texts = dbstate.texts_for(epochs, [True] * (n + 2), rain, [Fraction(1, 8)] * (n + 1), z, step)
        with pipeline.RealRun(texts) as rr:
            err = rr.load()
            if err is None:
                err = rr.classify(1000.0, thr)
            if err is not None:
                info['error'] = repr(err)
                return False, info
            flags.append([j for (j,) in rr.query('SELECT is_jump FROM grid_time_flags ORDER BY start_epoch')][:n + 1])
    info['is_jump'] = flags
    return flags[0] != flags[1], info


class C07(Check):
    pid = 'C07'

    def run(self):
        quick = self.tier == 'quick'
        steps_b = [1200, 1800] if quick else [600, 900, 1200, 1800, 3600]
        steps_a2 = [1200, 1800] if quick else [600, 1200, 1800, 3600]
        G = 3 if quick else 4
        self.bounds = {'origin': '0 <= epoch < 2**31 (symbolic integer)', 'shift': 'any integer number of seconds (R-mode) / of steps (F-mode)',
                       'a1: grid steps': G, 'a2: planted record at steps': steps_a2,
                       'b: time steps': steps_b, 'b: samples': 3, 'b: zeta, threshold': 'doubles in [2**-10, 1e6]'}
        self.unit('spowtd.classify', *classify_db.UNITS)
        self.unit('spowtd.rise', 'compute_rise_offsets')
        self.unit('spowtd.recession', 'compute_offsets')
        self.unit('spowtd.fit_offsets', 'get_series_time_offsets')
        self.unit('spowtd.zeta_grid', 'populate_zeta_grid')
        self.assumptions = ['(a) ideal reals; (b) IEEE binary64 round-to-nearest for the rate computation of classify_interstorms',
                            'a fixed-offset time zone change is a shift of every epoch by the same whole number of seconds',
                            'load itself is covered by C10/C11; states start from Inv_load']
        self.stubs = ['numpy -> vf.nplite (R and F mode)', 'sqlite3 -> vf.symsql', 'scipy interp1d / brentq / numpy.linalg.solve contracts (a2)']
        self.outside = ['F-mode for match_all_storms / regrid (their float expressions never see an absolute epoch: shown structurally by (a))',
                        'epochs beyond 2**31']
        self.run_conformance(patterns=None)
        exp = symx.explore(harness_a1, {'G': G, 'step_s': 1200, 'max_gaps': 1}, name='classify_two_origins[G=%d]' % G)
        self.absorb(exp, need_paths=2)
        for s in steps_a2:
            exp = symx.explore(harness_a2, {'step_s': s}, name='workflow_two_origins[step=%d]' % s)
            self.absorb(exp, need_paths=1)
        for s in steps_b:
            exp = symx.explore(harness_b, {'step_s': s, 'n': 2}, name='rise_flags_fp[step=%d]' % s, workers=1,
                               engine_kw={'query_timeout_ms': 120000 if quick else 600000, 'oneshot_tactic': 'qffp'})
            self.absorb(exp, need_paths=1)

        for s in steps_b:
            exp = symx.explore(harness_b2, {'step_s': s, 'n': 3}, name='increment_threshold_fp[step=%d]' % s, workers=1,
                               engine_kw={'query_timeout_ms': 120000 if quick else 600000, 'oneshot_tactic': 'qffp'})
            self.absorb(exp, need_paths=1)
        # witness replays: the real CLI at two concrete origins (incl. a date where
        # epoch/3600 rounds differently) must give identical flags and master curves
        for s in steps_a2:
            outs = []
            for o in (1577836800, 1577836800 + 977 * s + 86400 * 4000):
                rec = synth.planted_record(step_s=s, recessions=((1, 7), (0, 8), (3, 9)), origin=o)
                with pipeline.RealRun(synth.to_csv_texts(rec)) as rr:
                    errs = [rr.load(), rr.classify(2, 4), rr.zeta_grid(1), rr.rise(), rr.recession()]
                    outs.append(([repr(x) for x in errs if x is not None],
                                 rr.query('SELECT zeta_mm, mean_crossing_depth_mm FROM average_rising_depth ORDER BY zeta_mm'),
                                 rr.query('SELECT zeta_mm, elapsed_time_s FROM average_recession_time ORDER BY zeta_mm'),
                                 rr.query('SELECT is_jump, is_mystery_jump, is_interstorm FROM grid_time_flags ORDER BY start_epoch')))
            self.witness_replays += 1
            if outs[0] != outs[1] or outs[0][0]:
                self.witness_mismatch.append({'step_s': s, 'problem': 'real CLI results differ between two origins', 'errors': outs[0][0]})
                self.harness_errors.append('witness replay: real CLI results differ between origins at step %d although the symbolic check passed' % s)
            elif len(self.samples) < 4:
                self.samples.append({'witness': 'real CLI at origins 1577836800 and +%d s: %d rise levels, %d recession levels, identical'
                                     % (977 * s + 86400 * 4000, len(outs[0][1]), len(outs[0][2]))})

    def replay(self, failure):
        h = failure['harness']
        if h.startswith('increment_threshold_fp'):
            return replay_b2(failure, int(h.split('=')[1].rstrip(']')))
        if h.startswith('rise_flags_fp'):
            step = int(h.split('=')[1].rstrip(']'))
            return replay_b(failure, step, 2)
        m = model_fractions(failure.get('model'))
        info = {'expected': failure.get('detail'), 'label': failure.get('label'), 'model': {k: str(v) for k, v in m.items()}}
        if h.startswith('classify_two_origins'):
            G = int(h.split('=')[1].rstrip(']'))
            e, d = int(m.get('origin', 0)), int(m.get('shift', 0))
            outs = []
            for o in (e, e + d):
                o -= o % 1200
                ok, inf = classify_db.replay_cli({'G': G, 'step_s': 1200, 'origin': o}, m)
                outs.append(inf.get('real') or inf.get('classify_error'))
            info['observed'] = outs
            return outs[0] != outs[1], info
        if h.startswith('workflow_two_origins'):
            step = int(h.split('=')[1].rstrip(']'))
            e, d = int(m.get('origin', 0)), int(m.get('shift', 0))
            outs = []
            for o in (e - e % step, e + d - (e + d) % step):
                rec = synth.planted_record(step_s=step, recessions=((1, 7), (0, 8), (3, 9)), origin=o)
                with pipeline.RealRun(synth.to_csv_texts(rec)) as rr:
                    errs = [rr.load(), rr.classify(2, 4), rr.zeta_grid(1), rr.rise(), rr.recession()]
                    if any(x is not None for x in errs):
                        outs.append([repr(x) for x in errs])
                    else:
                        outs.append({'rise': rr.query('SELECT zeta_mm, mean_crossing_depth_mm FROM average_rising_depth ORDER BY zeta_mm'),
                                     'recession': rr.query('SELECT zeta_mm, elapsed_time_s FROM average_recession_time ORDER BY zeta_mm'),
                                     'flags': rr.query('SELECT is_jump, is_mystery_jump, is_interstorm FROM grid_time_flags ORDER BY start_epoch')})
            info['observed'] = 'master curves / flags differ' if outs[0] != outs[1] else 'identical'
            return outs[0] != outs[1], info
        return False, info
