"""C02 -- the storm-rise matching is stable and storm-optimal.

Three harnesses on the real code:
  A  find_stable_matching on a symbolic candidate relation with symbolic integer
     preferences on both sides and every set.pop() order;
  B  disambiguate_matching: what it hands to find_stable_matching (spied) is the
     documented preference structure (duration agreement / start agreement);
  C  match_storms on symbolic data, blocking pairs recomputed from the data.
"""

import itertools

import z3

from vf import symx, loader
from vf.framework import Check, model_fractions
from checks import classify_fn


def _z(x):
    return x.z if isinstance(x, symx.Sym) else z3.IntVal(int(x))


def harness_A(eng, ctx):
    S, J = ctx['S'], ctx['J']
    cl = loader.load('spowtd.classify', 'R')
    storms = [10 + s for s in range(S)]
    rises = [20 + j for j in range(J)]
    cand = {(s, j): bool(eng.bool('cand_%d_%d' % (s, j))) for s in storms for j in rises}
    p = {(s, j): eng.int('p_%d_%d' % (s, j)) for s in storms for j in rises}
    q = {(j, s): eng.int('q_%d_%d' % (j, s)) for s in storms for j in rises}
    storm_candidates = {}
    for s in storms:
        js = [j for j in rises if cand[(s, j)]]
        if not js and not ctx.get('empty_lists', True):
            continue
        # any worst-to-best order consistent with the (possibly tied) preferences
        perms = list(itertools.permutations(js))
        order = list(perms[eng.choose(len(perms), 'perm')]) if len(perms) > 1 else list(js)
        for a, b in zip(order, order[1:]):
            eng.assume(p[(s, a)] <= p[(s, b)])
        if js or eng.choose(2, 'emptykey'):
            storm_candidates[s] = list(order)
    jump_preferences = {}
    for j in rises:
        ss = [s for s in storms if cand[(s, j)]]
        if ss:
            jump_preferences[j] = {s: q[(j, s)] for s in ss}
    candidates = [(s, j) for s in storms for j in rises if cand[(s, j)]]
    try:
        matches = cl.find_stable_matching({k: list(v) for k, v in storm_candidates.items()},
                                          jump_preferences)
    except Exception as e:
        eng.fail_exception(e)
        return
    m_j = {int(j): int(s) for j, s in matches.items()}
    m_s = {}
    ok = True
    for j, s in m_j.items():
        ok = eng.prove((s, j) in candidates, 'A: matched pair is a candidate') and ok
        ok = eng.prove(s not in m_s, 'A: storm matched once') and ok
        m_s[s] = j
    if not ok:
        return
    # no blocking pair (strict preferences on both sides)
    for (s, j) in candidates:
        if m_j.get(j) == s:
            continue
        s_wants = True if s not in m_s else (p[(s, j)] > p[(s, m_s[s])])
        j_wants = True if j not in m_j else (q[(j, s)] > q[(j, m_j[j])])
        eng.prove(z3.Not(z3.And(symx.zbool(s_wants), symx.zbool(j_wants))),
                  'A: no blocking pair', detail='storm %d rise %d matches %r' % (s, j, sorted(m_j.items())))
    # storm-optimality under strict preferences: every stable matching M' gives every
    # storm a partner it likes no better than the one it got
    no_ties = []
    for s in storms:
        js = [j for j in rises if cand[(s, j)]]
        for a, b in itertools.combinations(js, 2):
            no_ties.append(_z(p[(s, a)]) != _z(p[(s, b)]))
    for j in rises:
        ss = [s for s in storms if cand[(s, j)]]
        for a, b in itertools.combinations(ss, 2):
            no_ties.append(_z(q[(j, a)]) != _z(q[(j, b)]))
    no_ties = z3.And(*no_ties) if no_ties else z3.BoolVal(True)
    n_alt = 0
    for alt in all_matchings(storms, rises, candidates):
        if alt == m_s:
            continue
        alt_j = {j: s for s, j in alt.items()}
        stable = []
        for (s, j) in candidates:
            if alt.get(s) == j:
                continue
            sw = z3.BoolVal(True) if s not in alt else (_z(p[(s, j)]) > _z(p[(s, alt[s])]))
            jw = z3.BoolVal(True) if j not in alt_j else (_z(q[(j, s)]) > _z(q[(j, alt_j[j])]))
            stable.append(z3.Not(z3.And(sw, jw)))
        stable = z3.And(*stable) if stable else z3.BoolVal(True)
        better = []
        for s in storms:
            if s in alt:
                if s in m_s:
                    better.append(_z(p[(s, m_s[s])]) >= _z(p[(s, alt[s])]))
                else:
                    better.append(z3.BoolVal(False))
        better = z3.And(*better) if better else z3.BoolVal(True)
        eng.prove(z3.Implies(z3.And(no_ties, stable), better), 'A: storm-optimal among stable matchings',
                  detail='result %r alternative %r' % (sorted(m_s.items()), sorted(alt.items())))
        n_alt += 1
    eng.note({'t': 'reached'})
    if ctx.get('sample') and len(m_j) >= 2 and any(d[0] == 'v' for d in eng.decisions):
        eng.note({'t': 'sample', 'v': {'candidates': candidates, 'matches(rise->storm)': sorted(m_j.items()),
                                       'alternatives_checked': n_alt}})


def all_matchings(storms, rises, candidates):
    """Every partial one-to-one matching inside the candidate relation (storm -> rise)."""
    cs = set(candidates)

    def rec(i, used, cur):
        if i == len(storms):
            yield dict(cur)
            return
        s = storms[i]
        yield from rec(i + 1, used, cur)
        for j in rises:
            if (s, j) in cs and j not in used:
                cur[s] = j
                yield from rec(i + 1, used | {j}, cur)
                del cur[s]
    yield from rec(0, frozenset(), {})


def harness_B(eng, ctx):
    """What disambiguate_matching hands to find_stable_matching."""
    K = ctx['K']
    captured = {}

    def spy(storm_candidates, jump_preferences):
        captured['sc'] = {k: list(v) for k, v in storm_candidates.items()}
        captured['jp'] = {k: dict(v) for k, v in jump_preferences.items()}
        return {}
    cl = loader.load('spowtd.classify', 'R')
    original = cl.find_stable_matching
    G = ctx['grid']
    pairs = []
    seen = set()
    for k in range(K):
        rs = eng.choose(G, 'rs')
        js = eng.choose(G, 'js')
        if (rs, js) in seen:
            raise symx.PathAbort('duplicate candidate pair')
        seen.add((rs, js))
        pairs.append((rs, js))
    rstop = {}
    jstop = {}
    for rs, js in pairs:
        if rs not in rstop:
            rstop[rs] = eng.int('rain_stop_%d' % rs)
            eng.assume(rstop[rs] > rs)
        if js not in jstop:
            jstop[js] = eng.int('jump_stop_%d' % js)
            eng.assume(jstop[js] > js + 1)
    rain_intervals = [(rs, rstop[rs]) for rs, js in pairs]
    jump_intervals = [(js, jstop[js]) for rs, js in pairs]
    cl.find_stable_matching = spy
    try:
        cl.disambiguate_matching(rain_intervals, jump_intervals)
    except Exception as e:
        eng.fail_exception(e)
        return
    finally:
        cl.find_stable_matching = original
    sc, jp = captured['sc'], captured['jp']
    eng.prove(set(sc) == {rs for rs, _ in pairs}, 'B: every storm has a candidate list')
    eng.prove(set(jp) == {js for _, js in pairs}, 'B: every rise has preferences')

    def absdiff(a):
        return z3.If(a >= 0, a, -a)
    for rs, lst in sc.items():
        want = sorted(js for r, js in pairs if r == rs)
        eng.prove(sorted(lst) == want, 'B: candidate list = overlapping rises')
        gaps = [absdiff((_z(rstop[rs]) - rs) - (_z(jstop[js]) - js)) for js in lst]
        for a, b in zip(gaps, gaps[1:]):
            eng.prove(a >= b, 'B: candidates ordered worst to best by duration agreement')
    for js, prefs in jp.items():
        want = sorted(r for r, j in pairs if j == js)
        eng.prove(sorted(prefs) == want, 'B: preference keys = overlapping storms')
        for a, b in itertools.combinations(sorted(prefs), 2):
            ga, gb = abs(js - a), abs(js - b)
            pa, pb = _z(prefs[a]), _z(prefs[b])
            eng.prove(z3.And((pa > pb) == (ga < gb), (pa == pb) == (ga == gb)),
                      'B: rise prefers the storm with the closer start')
    eng.note({'t': 'reached'})


def replay_A(failure, S, J):
    """Re-run find_stable_matching of the real module on the failing model."""
    real = loader.real_module('spowtd.classify')
    m = model_fractions(failure.get('model'))
    storms = [10 + s for s in range(S)]
    rises = [20 + j for j in range(J)]
    cand = {(s, j): bool(m.get('cand_%d_%d' % (s, j), False)) for s in storms for j in rises}
    p = {(s, j): int(m.get('p_%d_%d' % (s, j), 0)) for s in storms for j in rises}
    q = {(j, s): int(m.get('q_%d_%d' % (j, s), 0)) for s in storms for j in rises}
    info = {'entry': 'spowtd.classify.find_stable_matching', 'expected': failure.get('detail'),
            'label': failure.get('label')}
    outcomes = []
    # the model fixes preferences; candidate lists are every worst-to-best order
    # consistent with them, storm ids are relabelled to steer CPython's set.pop order
    for relabel in itertools.permutations(range(S)):
        ids = {s: 10 + 8 * relabel[i] + (0 if i % 2 else 1) for i, s in enumerate(storms)}
        lists = []
        for s in storms:
            js = [j for j in rises if cand[(s, j)]]
            perms = [list(o) for o in itertools.permutations(js)
                     if all(p[(s, a)] <= p[(s, b)] for a, b in zip(o, o[1:]))]
            lists.append(perms)
        for combo in itertools.product(*lists):
            sc = {ids[s]: list(o) for s, o in zip(storms, combo)}
            jp = {j: {ids[s]: q[(j, s)] for s in storms if cand[(s, j)]} for j in rises
                  if any(cand[(s, j)] for s in storms)}
            back = {v: k for k, v in ids.items()}
            try:
                res = real.find_stable_matching({k: list(v) for k, v in sc.items()}, jp)
            except Exception as e:
                outcomes.append(('exc', type(e).__name__, str(e)[:100], sc))
                continue
            mj = {j: back[s] for j, s in res.items()}
            outcomes.append(('ok', mj, sc))
    want_exc = failure['detail'].split(':', 1)[0] if failure.get('kind') == 'exception' else None
    for o in outcomes:
        if want_exc and o[0] == 'exc' and o[1] == want_exc:
            info['observed'] = {'exception': o[1], 'message': o[2], 'storm_candidates': o[3], 'p': str(p), 'q': str(q)}
            return True, info
        if not want_exc and o[0] == 'ok':
            mj = o[1]
            ms = {s: j for j, s in mj.items()}
            bad = None
            if len(ms) != len(mj):
                bad = 'storm matched twice'
            for (s, j), c in cand.items():
                if not c or mj.get(j) == s:
                    continue
                sw = s not in ms or p[(s, j)] > p[(s, ms[s])]
                jw = j not in mj or q[(j, s)] > q[(j, mj[j])]
                if sw and jw:
                    bad = 'blocking pair storm %d rise %d' % (s, j)
            if bad is None and 'optimal' in failure.get('label', ''):
                ties = any(p[(s, a)] == p[(s, b)] for s in storms for a in rises for b in rises
                           if a < b and cand[(s, a)] and cand[(s, b)]) or \
                    any(q[(j, a)] == q[(j, b)] for j in rises for a in storms for b in storms
                        if a < b and cand[(a, j)] and cand[(b, j)])
                if not ties:
                    cands = [k for k, c in cand.items() if c]
                    for alt in all_matchings(storms, rises, cands):
                        altj = {j: s for s, j in alt.items()}
                        stable = all(not ((s not in alt or p[(s, j)] > p[(s, alt[s])]) and
                                          (j not in altj or q[(j, s)] > q[(j, altj[j])]))
                                     for (s, j) in cands if alt.get(s) != j)
                        if stable and any(s not in ms or p[(s, alt[s])] > p[(s, ms[s])] for s in alt):
                            bad = 'stable matching %r is better for a storm than %r' % (alt, ms)
            if bad:
                info['observed'] = {'matches(rise->storm)': mj, 'problem': bad, 'storm_candidates': o[2],
                                    'p': str(p), 'q': str(q)}
                return True, info
    info['observed'] = 'no relabelling / list order reproduced it (%d runs)' % len(outcomes)
    return False, info


class C02(Check):
    pid = 'C02'

    def run(self):
        quick = self.tier == 'quick'
        sizes = [(2, 2), (3, 2), (2, 3)] if quick else [(2, 2), (3, 2), (2, 3), (3, 3)]
        N = 7 if quick else 8
        self.bounds = {'A: storms x rises': sizes, 'A: preferences': 'symbolic integers with ties',
                       'A: set.pop order': 'all', 'A: candidate list order': 'every order consistent with preferences',
                       'B: candidate pairs': 3 if quick else 4, 'B: start grid': 4,
                       'C: samples': N}
        self.unit('spowtd.classify', 'find_stable_matching', 'disambiguate_matching', *classify_fn.UNITS)
        self.assumptions = ['A: the two preference tables are arbitrary integers (the repository uses negated '
                            'absolute differences, covered by B)', 'R-mode for C']
        self.stubs = ['builtin set -> vf.loader.SymSet (pop order is an engine choice)', 'numpy -> vf.nplite (C only)']
        self.outside = ['more than 3x3 storms x rises at algorithm level', 'records longer than N at data level']
        for (S, J) in sizes:
            exp = symx.explore(harness_A, {'S': S, 'J': J, 'sample': True}, name='find_stable_matching[%dx%d]' % (S, J))
            self.absorb(exp, need_paths=4)
        exp = symx.explore(harness_B, {'K': 3 if quick else 4, 'grid': 4}, name='disambiguate_matching')
        self.absorb(exp, need_paths=4)
        for n in range(3, N + 1):
            exp = symx.explore(classify_fn.harness, {'N': n, 'props': ('C02',), 'seed': self.seed, 'replay_every': 11},
                               name='match_storms[N=%d]' % n)
            self.absorb(exp, need_paths=2)

    def replay(self, failure):
        h = failure['harness']
        if h.startswith('find_stable_matching'):
            S, J = [int(x) for x in h.split('[')[1].rstrip(']').split('x')]
            return replay_A(failure, S, J)
        if h.startswith('match_storms'):
            return classify_fn.replay_failure(int(h.split('=')[1].rstrip(']')), failure)
        if h.startswith('disambiguate'):
            return replay_B(failure)
        return False, {'error': 'unknown harness'}


def replay_B(failure):
    real = loader.real_module('spowtd.classify')
    m = model_fractions(failure.get('model'))
    rstop = {int(k.rsplit('_', 1)[1]): int(v) for k, v in m.items() if k.startswith('rain_stop_')}
    jstop = {int(k.rsplit('_', 1)[1]): int(v) for k, v in m.items() if k.startswith('jump_stop_')}
    captured = {}
    orig = real.find_stable_matching

    def spy(sc, jp):
        captured['sc'] = {k: list(v) for k, v in sc.items()}
        captured['jp'] = {k: dict(v) for k, v in jp.items()}
        return {}
    pairs = [(r, j) for r in sorted(rstop) for j in sorted(jstop)]
    info = {'entry': 'spowtd.classify.disambiguate_matching', 'expected': failure.get('detail'), 'label': failure.get('label')}
    real.find_stable_matching = spy
    try:
        bad = None
        # the model does not carry which pairs were chosen; try every subset of the product
        for k in range(1, len(pairs) + 1):
            for sub in itertools.combinations(pairs, k):
                if {r for r, _ in sub} != set(rstop) or {j for _, j in sub} != set(jstop):
                    continue
                try:
                    real.disambiguate_matching([(r, rstop[r]) for r, _ in sub], [(j, jstop[j]) for _, j in sub])
                except Exception as e:
                    if failure.get('kind') == 'exception' and type(e).__name__ == failure['detail'].split(':')[0]:
                        info['observed'] = '%s: %s' % (type(e).__name__, e)
                        return True, info
                    continue
                for rs, lst in captured['sc'].items():
                    gaps = [abs((rstop[rs] - rs) - (jstop[js] - js)) for js in lst]
                    if any(a < b for a, b in zip(gaps, gaps[1:])):
                        bad = 'storm %d candidates %r have duration gaps %r (not worst to best)' % (rs, lst, gaps)
                for js, prefs in captured['jp'].items():
                    for a, b in itertools.combinations(sorted(prefs), 2):
                        if (prefs[a] > prefs[b]) != (abs(js - a) < abs(js - b)) or (prefs[a] == prefs[b]) != (abs(js - a) == abs(js - b)):
                            bad = 'rise %d preferences %r disagree with start offsets' % (js, prefs)
                if bad:
                    info['observed'] = {'pairs': sub, 'rain_stops': rstop, 'jump_stops': jstop, 'problem': bad}
                    return True, info
    finally:
        real.find_stable_matching = orig
    info['observed'] = 'not reproduced'
    return False, info
