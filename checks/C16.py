"""C16 -- PEATCLSM functions follow the published formulation.

Transmissivity: every parameter and the level symbolic; power function uninterpreted.
Specific yield: the real _construct_spline / get_Sy_soil / campbell_1d_az run with
symbolic sd, theta_s, b (normal cdf and power function uninterpreted) and psi_s taken
from a small set of concrete values; the 201 tabulated values are compared, term by
term, with a transcription of the Dettmann-Bechtold discretisation as written in the R
reference shipped with the code (which sums 200 layers; the Python code sums 201: either
is accepted).  The R script itself cannot be run here (no Rscript).
"""

from fractions import Fraction

import z3

from vf import symx, loader, nplite, libstubs
from vf.framework import Check, model_fractions
from checks import spline_common, sim_common


# ---- transmissivity ------------------------------------------------------------------------
def harness_T(eng, ctx):
    nplite.set_float_mode('R')
    tm = spline_common.load_transmissivity('R')
    K = eng.real('Ksmacz0')
    alpha = eng.real('alpha')
    zmax = eng.real('zeta_max_cm')
    w = eng.real('water_level_mm')
    eng.assume(K > 0)
    eng.assume(alpha > 1)
    eng.assume(w / 10 != zmax)        # the pole of the formula (numpy returns inf there)
    T = tm.PeatclsmTransmissivity(K, alpha, zmax)
    above = bool(w / 10 > zmax)
    levels = nplite.array([w, w - 10])
    try:
        val = T(w)
        arr = T(levels)
        again = T(levels)        # the caller keeps its array of levels and evaluates it once more
    except ValueError as e:
        eng.prove(above, 'C16: transmissivity is refused only above zeta_max', detail=str(e)[:80])
        eng.note({'t': 'reached'})
        return
    except Exception as e:
        eng.fail_exception(e)
        return
    eng.prove(not above, 'C16: transmissivity is refused above zeta_max')

    def sc(v):
        return v._d[0] if isinstance(v, nplite.ndarray) and v.ndim == 0 else v
    want = K * eng.pow(zmax - w / 10, 1 - alpha) / (100 * (alpha - 1))
    eng.prove(sc(val) == want, 'C16: transmissivity = Ksmacz0 (zeta_max - zeta)^(1 - alpha) / (100 (alpha - 1)), zeta in cm')
    eng.prove(arr[0] == want, 'C16: array argument gives the same value')
    want2 = K * eng.pow(zmax - (w - 10) / 10, 1 - alpha) / (100 * (alpha - 1))
    eng.prove(arr[1] == want2, 'C16: array argument, second element')
    eng.prove(levels[0] == w and levels[1] == w - 10, "C16: the caller's array of levels is left as it was")
    eng.prove(again[0] == want and again[1] == want2, 'C16: a second evaluation of the same array gives the same values')
    eng.note({'t': 'reached'})


def replay_T(m):
    import numpy as np
    real = loader.real_module('spowtd.transmissivity')
    K, al, zm, w = (float(m.get(k, d)) for k, d in (('Ksmacz0', 7.3), ('alpha', 3.0), ('zeta_max_cm', 1.0), ('water_level_mm', 0.0)))
    info = {'Ksmacz0': K, 'alpha': al, 'zeta_max_cm': zm, 'water_level_mm': w}
    try:
        v = float(real.PeatclsmTransmissivity(K, al, zm)(w))
    except ValueError as e:
        info['observed'] = 'ValueError'
        return (not (w / 10 > zm)), info
    except Exception as e:
        info['observed'] = '%s: %s' % (type(e).__name__, e)
        return True, info
    if w / 10 > zm:
        info['observed'] = 'value %r returned above zeta_max' % v
        return True, info
    want = K * (zm - w / 10) ** (1 - al) / (100 * (al - 1))
    info['observed'] = {'value': v, 'formula': want}
    bad = abs(v - want) > 1e-9 * max(1.0, abs(want))
    # a float64 array the caller keeps, evaluated twice
    try:
        T = real.PeatclsmTransmissivity(K, al, zm)
        levels = np.array([w, w - 10.0])
        first = [float(x) for x in T(levels)]
        kept = [float(x) for x in levels]
        second = [float(x) for x in T(levels)]
        want2 = K * (zm - (w - 10.0) / 10) ** (1 - al) / (100 * (al - 1))
        info['observed'].update(array_first=first, array_levels_afterwards=kept, array_second=second)
        tol = lambda a, b: abs(a - b) > 1e-9 * max(1.0, abs(b))
        if kept != [w, w - 10.0] or tol(first[0], want) or tol(first[1], want2) or tol(second[0], want) or tol(second[1], want2):
            bad = True
    except Exception as e:
        info['observed']['array_evaluation'] = '%s: %s' % (type(e).__name__, e)
        bad = True
    return bad, info


# ---- specific yield ------------------------------------------------------------------------------
def reference_table(eng, sd, theta_s, b, psi_s, layers):
    """Transcription of peatclsm_hydraulic_functions.R (get_Sy_soil + surface term)."""
    Phi = lambda x: libstubs.norm_cdf(x, loc=0, scale=sd)
    zl_ = [Fraction(-1) + Fraction(i, 100) for i in range(201)]
    zu_ = [Fraction(-99, 100) + Fraction(i, 100) for i in range(201)]

    def campbell(z_, zlu):
        Fs = Phi(z_)
        if (zlu - z_) * 100 >= psi_s * 100:
            theta = theta_s
        else:
            theta = theta_s * (((zlu - z_) * 100) / (psi_s * 100)) ** (-1 / b)
        return (1 - Fs) * theta
    out = []
    for i in range(201):
        zl, zu = zl_[i], zu_[i]
        A = 0
        for j in range(layers):
            zm = Fraction(1, 2) * (zl_[j] + zu_[j])
            A = A + (zu_[j] - zl_[j]) * (campbell(zm, zu) - campbell(zm, zl))
        soil = 1 / (1 * (zu - zl)) * A
        out.append(soil + Phi(Fraction(1, 2) * (zu + zl)))
    return out


def harness_Sy(eng, ctx):
    nplite.set_float_mode('R')
    mods, ys = sim_common.sim_modules()
    sy_mod = mods['specific_yield']
    psi_s = Fraction(ctx['psi_s'])
    if ctx.get('symbolic', True):
        sd = eng.real('sd')
        theta_s = eng.real('theta_s')
        b = eng.real('b')
        eng.assume(sd > 0)
        eng.assume(sd <= 2)
        eng.assume(theta_s >= Fraction(1, 100))
        eng.assume(theta_s <= 1)
        eng.assume(b >= Fraction(1, 100))
        eng.assume(b <= 20)
    else:
        sd, theta_s, b = eng.real('sd'), Fraction('0.88'), Fraction('7.4')
        eng.assume(sd > 0)
        eng.assume(sd <= 2)
    try:
        obj = sy_mod.PeatclsmSpecificYield(sd, theta_s, b, psi_s)
        second = None
        if ctx.get('twice'):
            sd2 = eng.real('sd_second')
            eng.assume(sd2 > 0)
            eng.assume(sd2 <= 2)
            second = sy_mod.PeatclsmSpecificYield(sd2, theta_s, b, psi_s)
    except Exception as e:
        eng.fail_exception(e)
        return
    for (o, s_, tag) in ((obj, sd, 'first'), (second, ctx.get('twice') and sd2, 'second object built in the same process')):
        if o is None or (second is not None and o is obj):
            continue            # the first object of the pair is the subject of the single-object harness
        knots = list(o.zeta_knots_mm)
        vals = list(o.sy_knots)
        eng.prove(len(knots) == 201 and len(vals) == 201, 'C16: 201 tabulated levels')
        for i in (0, 100, 200):
            eng.prove(knots[i] == (Fraction(-1) + Fraction(i, 100) + Fraction(1, 200)) * 1000, 'C16: tabulated levels are the cell midpoints in mm')
        r201 = reference_table(eng, s_, theta_s, b, psi_s, 201)
        r200 = None
        n_struct = 0
        for i in range(201):
            a, r = vals[i], r201[i]
            if isinstance(a, symx.Sym) and isinstance(r, symx.Sym) and a.z.eq(r.z):
                eng.prove(True, 'C16: tabulated specific yield = Dettmann-Bechtold soil + microtopography profile')
                n_struct += 1
                continue
            if r200 is None:
                r200 = reference_table(eng, s_, theta_s, b, psi_s, 200)
            ok = eng.prove(z3.Or(symx.zbool(a == r), symx.zbool(a == r200[i])),
                           'C16: tabulated specific yield = Dettmann-Bechtold soil + microtopography profile',
                           detail='level index %d (%s)' % (i, tag))
            if ok is not True:
                break       # one level that is not the profile decides the path; the terms are large
        # linear in between, constant beyond: the order-1 spline through the table
        probe = knots[100] + Fraction(5, 2)
        want = vals[100] + (vals[101] - vals[100]) * Fraction(1, 4)
        eng.prove(o(probe) == want, 'C16: linear between tabulated levels')
        eng.prove(o(knots[0] - 50) == vals[0], 'C16: constant below the table')
        eng.prove(o(knots[200] + 50) == vals[200], 'C16: constant above the table')
    eng.note({'t': 'reached'})
    eng.note({'t': 'sample', 'v': {'psi_s': str(psi_s), 'levels': 201, 'structurally_equal_levels': n_struct}})


def published_table():
    """Real code at the published parameter set vs a float transcription (replay / witness)."""
    import numpy as np
    from scipy.stats import norm
    real = loader.real_module('spowtd.specific_yield')
    sd, th, b, ps = 0.162, 0.88, 7.4, -0.024
    o = real.PeatclsmSpecificYield(sd, th, b, ps)
    return o, float_reference(sd, th, b, ps, 201), float_reference(sd, th, b, ps, 200)


def float_reference(sd, th, b, ps, layers):
    import numpy as np
    from scipy.stats import norm
    zl_ = np.linspace(-1, 1, 201)
    zu_ = np.linspace(-0.99, 1.01, 201)

    def campbell(z_, zlu):
        Fs = norm.cdf(z_, 0, sd)
        x = (zlu - z_) * 100
        theta = th if x >= ps * 100 else th * (x / (ps * 100)) ** (-1 / b)
        return (1 - Fs) * theta
    out = []
    for i in range(201):
        A = 0.0
        for j in range(layers):
            zm = 0.5 * (zl_[j] + zu_[j])
            A += (zu_[j] - zl_[j]) * (campbell(zm, zu_[i]) - campbell(zm, zl_[i]))
        out.append(A / (zu_[i] - zl_[i]) + norm.cdf(0.5 * (zu_[i] + zl_[i]), 0, sd))
    return np.array(out)


def _task(args):
    name, h, ctx = args
    return symx.explore(h, ctx, name=name, workers=1, engine_kw={'query_timeout_ms': 120000}, wall_limit_s=3000)


class C16(Check):
    pid = 'C16'

    def run(self):
        quick = self.tier == 'quick'
        self.unit('spowtd.transmissivity', 'PeatclsmTransmissivity.__init__', 'PeatclsmTransmissivity.__call__')
        self.unit('spowtd.specific_yield', 'PeatclsmSpecificYield.__init__', 'PeatclsmSpecificYield._construct_spline',
                  'PeatclsmSpecificYield.get_Sy_soil', 'campbell_1d_az', 'SpecificYield.__call__')
        psis = ['-0.024'] if quick else ['-0.024', '-0.02', '-0.025', '-0.995', '-0.01', '-0.305']
        self.bounds = {'transmissivity': 'Ksmacz0 > 0, alpha > 1, zeta_max and the level any reals except the pole zeta = zeta_max',
                       'specific yield': 'sd in (0,2], theta_s in [0.01,1], b in [0.01,20] symbolic (the PEST bounds); psi_s from %r' % psis,
                       'second object in one process': 'same soil parameters, another symbolic sd'}
        self.assumptions = ['x**y and the normal cdf are uninterpreted functions (equal arguments give equal values)',
                            'the R reference sums 200 layers, the Python code 201: a table equal to either transcription is accepted',
                            'psi_s is concrete per run (it decides which branch of the Campbell function each of the 80802 cells takes)']
        self.stubs = ['scipy.stats.norm.cdf -> uninterpreted Phi((x-loc)/scale) in [0,1]', 'x**y -> uninterpreted pow', 'numpy -> vf.nplite',
                      'FITPACK order-1 spline -> exact piecewise-linear']
        self.outside = ['"reproduces the R reference": Rscript is not installed and R is not parsed; a float transcription is compared with the real code at the published parameters (witness)',
                        'psi_s values other than the listed ones', 'accuracy of scipy.stats.norm / pow']
        exp = symx.explore(harness_T, {}, name='peatclsm_transmissivity')
        self.absorb(exp, need_paths=2)
        import multiprocessing as mp
        tasks = []
        for ps in psis:
            tasks.append(('peatclsm_specific_yield[psi_s=%s]' % ps, harness_Sy, {'psi_s': ps, 'symbolic': True}))
        tasks.append(('peatclsm_specific_yield_twice[psi_s=-0.024]', harness_Sy, {'psi_s': '-0.024', 'symbolic': False, 'twice': True}))
        from vf.framework import run_tasks
        lost = lambda t, why: self.harness_errors.append('%s: no result: %s' % (t[0], why))
        if True:
            for exp in run_tasks(_task, tasks, min(8, len(tasks)), lost, timeout_s=1800 if quick else 2 * 3600):
                self.absorb(exp, need_paths=1)
        if quick:
            # second object in the same process with another sd (witness)
            real = loader.real_module('spowtd.specific_yield')
            import numpy as np
            a = real.PeatclsmSpecificYield(0.162, 0.88, 7.4, -0.024)
            b2 = real.PeatclsmSpecificYield(0.5, 0.88, 7.4, -0.024)
            d = float(np.max(np.abs(np.asarray(b2.sy_knots) - float_reference(0.5, 0.88, 7.4, -0.024, 201))))
            self.witness_replays += 1
            if d > 1e-9:
                self.witness_mismatch.append({'second object, sd=0.5': d})
                self.harness_errors.append('witness: a second PEATCLSM object (sd=0.5) built in the same process differs from the transcription by %g' % d)
        # witness: the real code at the published parameter set against the float transcription
        import numpy as np
        o, r201, r200 = published_table()
        got = np.asarray(o.sy_knots)
        self.witness_replays += 1
        err = min(float(np.max(np.abs(got - r201))), float(np.max(np.abs(got - r200))))
        self.extra['published_parameters_max_abs_difference_to_transcription'] = err
        if err > 1e-9:
            self.witness_mismatch.append({'max_abs_difference': err})
            self.harness_errors.append('witness: real PEATCLSM table differs from the transcription at the published parameters by %g' % err)
        else:
            self.samples.append({'published_parameters': 'sd=0.162 theta_s=0.88 b=7.4 psi_s=-0.024', 'max_abs_difference': err,
                                 'Sy(-500mm)': float(o(-500.0)), 'Sy(0mm)': float(o(0.0))})

    def replay(self, failure):
        h = failure['harness']
        m = model_fractions(failure.get('model'))
        info = {'expected': failure.get('detail'), 'label': failure.get('label')}
        if h.startswith('peatclsm_transmissivity'):
            bad, inf = replay_T(m)
            inf.update(info)
            return bad, inf
        import numpy as np
        real = loader.real_module('spowtd.specific_yield')
        ps = float(h.split('psi_s=')[1].rstrip(']'))
        sd = float(m.get('sd', 0.162))
        th = float(m.get('theta_s', 0.88))
        b = float(m.get('b', 7.4))
        info.update(sd=sd, theta_s=th, b=b, psi_s=ps)
        try:
            o = real.PeatclsmSpecificYield(sd, th, b, ps)
            objs = [(o, sd)]
            if 'twice' in h:
                sd2 = float(m.get('sd_second', 0.5))
                info['sd_second'] = sd2
                objs.append((real.PeatclsmSpecificYield(sd2, th, b, ps), sd2))
        except Exception as e:
            info['observed'] = '%s: %s' % (type(e).__name__, e)
            return failure.get('kind') == 'exception', info
        worst = 0.0
        for ob, s_ in objs:
            got = np.asarray(ob.sy_knots)
            d = min(float(np.max(np.abs(got - float_reference(s_, th, b, ps, 201)))), float(np.max(np.abs(got - float_reference(s_, th, b, ps, 200)))))
            worst = max(worst, d)
        info['observed'] = {'max_abs_difference_to_transcription': worst}
        return worst > 1e-7, info
