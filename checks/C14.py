"""C14 -- spline specific yield interpolates its knots and integrates consistently."""

import itertools
from fractions import Fraction

import z3

from vf import symx, loader, nplite, libstubs
from vf.framework import Check, model_fractions
from checks import spline_common


def make_sy(eng, ctx):
    n = ctx['knots']
    sy_mod = spline_common.load_sy('R')
    if ctx.get('concrete_knots'):
        xs = [Fraction(v) for v in ctx['concrete_knots']]
    else:
        xs = [eng.real('x%d' % i) for i in range(n)]
        for a, b in zip(xs, xs[1:]):
            eng.assume(a < b)
    ys = [eng.real('y%d' % i) for i in range(n)]
    sy = sy_mod.SplineSpecificYield(list(xs), list(ys))
    return sy_mod, sy, xs, ys


def antiderivative(sy, xs, v):
    """G(v): integral of the clamped function from xs[0] to v, from the same F."""
    info = libstubs._info(sy._spline._tck)
    Fn = info['F']
    S = info['S']
    lo, hi = xs[0], xs[-1]
    if v < lo:
        return symx.wrap(S(libstubs._zr(lo))) * (v - lo)
    if v > hi:
        return symx.wrap(Fn(libstubs._zr(hi)) - Fn(libstubs._zr(lo))) + symx.wrap(S(libstubs._zr(hi))) * (v - hi)
    return symx.wrap(Fn(libstubs._zr(v)) - Fn(libstubs._zr(lo)))


def harness_values(eng, ctx):
    sy_mod, sy, xs, ys = make_sy(eng, ctx)
    try:
        for x, y in zip(xs, ys):
            eng.prove(sy(x) == y, 'C14: passes through every knot')
        v = eng.real('v')
        val = sy(v)
        lo, hi = xs[0], xs[-1]
        if v <= lo:
            eng.prove(val == ys[0], 'C14: constant below the lowest knot')
        elif v >= hi:
            eng.prove(val == ys[-1], 'C14: constant above the highest knot')
        arr = sy(nplite.array([lo - 1, hi + 1]))
        eng.prove(arr[0] == ys[0], 'C14: array argument clamps below')
        eng.prove(arr[1] == ys[-1], 'C14: array argument clamps above')
    except Exception as e:
        eng.fail_exception(e)
        return
    eng.note({'t': 'reached'})


def harness_int_levels(eng, ctx):
    """Levels given as Python integers / integer arrays (water levels in whole mm): same function."""
    sy_mod, sy, xs, ys = make_sy(eng, ctx)
    n = eng.int('n')
    m = eng.int('m')
    lo, hi = xs[0], xs[-1]
    try:
        val = sy(n)
        arr = sy(nplite.array([n, m]))
        inm = sy.integrate(n, m)
    except Exception as e:
        eng.fail_exception(e)
        return
    info = libstubs._info(sy._spline._tck)
    S = info['S']
    want = ys[0] if n <= lo else (ys[-1] if n >= hi else symx.wrap(S(libstubs._zr(n))))
    wantm = ys[0] if m <= lo else (ys[-1] if m >= hi else symx.wrap(S(libstubs._zr(m))))
    eng.prove(val == want, 'C14: an integer level gives the value of the clamped function at that level')
    eng.prove(arr[0] == want, 'C14: an integer array gives the values of the clamped function')
    eng.prove(arr[1] == wantm, 'C14: an integer array gives the values of the clamped function')
    eng.prove(inm == antiderivative(sy, xs, m) - antiderivative(sy, xs, n), 'C14: integral between integer limits equals the area under the clamped function')
    eng.note({'t': 'reached'})


def harness_integral(eng, ctx):
    sy_mod, sy, xs, ys = make_sy(eng, ctx)
    a = eng.real('a')
    b = eng.real('b')
    c = eng.real('c')
    try:
        iab = sy.integrate(a, b)
        ibc = sy.integrate(b, c)
        iac = sy.integrate(a, c)
        iba = sy.integrate(b, a)
    except Exception as e:
        eng.fail_exception(e)
        return
    Ga, Gb, Gc = antiderivative(sy, xs, a), antiderivative(sy, xs, b), antiderivative(sy, xs, c)
    eng.prove(iab == Gb - Ga, 'C14: integral equals the area under the clamped function',
              detail='integrate(a,b) vs G(b)-G(a)')
    eng.prove(iac == Gc - Ga, 'C14: integral equals the area under the clamped function', detail='integrate(a,c)')
    eng.prove(iab + ibc == iac, 'C14: integrals are additive over adjacent ranges')
    eng.prove(iba == -iab, 'C14: swapping the limits changes the sign')
    eng.note({'t': 'reached'})
    if ctx.get('concrete_knots') and eng.stats.paths % ctx.get('replay_every', 5) == 0:
        w = eng.witness()
        if w is not None:
            ok, info = replay_concrete(ctx, model_fractions(w))
            eng.note({'t': 'witness', 'n': 1})
            if not ok:
                eng.note({'t': 'witness_mismatch', 'v': info})
            else:
                eng.note({'t': 'sample', 'v': info})


def numeric_area(sy, lo, hi, a, b):
    """Reference area under the clamped real spline by adaptive quadrature of sy itself."""
    from scipy.integrate import quad
    pts = sorted({min(max(lo, min(a, b)), max(a, b)), min(max(hi, min(a, b)), max(a, b))})
    val = quad(lambda z: float(sy(z)), a, b, points=[p for p in pts if min(a, b) < p < max(a, b)] or None, limit=200)[0]
    return val


def replay_concrete(ctx, m, label=None):
    """The real SplineSpecificYield on concrete knots: area by quadrature, additivity, antisymmetry."""
    real = loader.real_module('spowtd.specific_yield')
    n = ctx['knots']
    xs = [float(Fraction(v)) for v in ctx['concrete_knots']] if ctx.get('concrete_knots') else [float(m.get('x%d' % i, i)) for i in range(n)]
    ys = [float(m.get('y%d' % i, 0.5)) for i in range(n)]
    a, b, c = (float(m.get(k, 0)) for k in ('a', 'b', 'c'))
    sy = real.SplineSpecificYield(xs, ys)
    info = {'zeta_knots_mm': xs, 'sy_knots': ys, 'a': a, 'b': b, 'c': c}
    try:
        iab, ibc, iac, iba = sy.integrate(a, b), sy.integrate(b, c), sy.integrate(a, c), sy.integrate(b, a)
    except Exception as e:
        info['real_exception'] = '%s: %s' % (type(e).__name__, e)
        return False, info
    scale = max(1.0, max(abs(v) for v in ys)) * max(1.0, abs(a - b), abs(b - c), abs(a - c))
    info.update(integrate_ab=iab, integrate_bc=ibc, integrate_ac=iac, integrate_ba=iba)
    problems = []
    if abs(iab + ibc - iac) > 1e-9 * scale:
        problems.append('additivity: %r + %r != %r' % (iab, ibc, iac))
    if abs(iba + iab) > 1e-9 * scale:
        problems.append('antisymmetry')
    area = numeric_area(sy, xs[0], xs[-1], a, b)
    info['area_by_quadrature'] = area
    if abs(area - iab) > 1e-6 * scale:
        problems.append('area: integrate(a,b)=%r but quadrature of the function gives %r' % (iab, area))
    for x, y in zip(xs, ys):
        if abs(float(sy(x)) - y) > 1e-9 * max(1.0, abs(y)):
            problems.append('knot (%r, %r) not interpolated: %r' % (x, y, float(sy(x))))
    if abs(float(sy(xs[0] - 10)) - ys[0]) > 1e-9 * max(1.0, abs(ys[0])) or abs(float(sy(xs[-1] + 10)) - ys[-1]) > 1e-9 * max(1.0, abs(ys[-1])):
        problems.append('not constant outside the knot range')
    info['problems'] = problems
    return not problems, info


def replay_int_levels(ctx, m):
    """The real SplineSpecificYield at integer levels n, m (Python ints and an int64 array) against the same
    object evaluated at float(n), float(m), and integrate(n, m) against quadrature."""
    import numpy as np
    real = loader.real_module('spowtd.specific_yield')
    xs = [float(Fraction(v)) for v in ctx['concrete_knots']]
    ys = [float(m.get('y%d' % i, 0.5)) for i in range(len(xs))]
    n, k = int(m.get('n', 0)), int(m.get('m', 0))
    sy = real.SplineSpecificYield(xs, ys)
    info = {'zeta_knots_mm': xs, 'sy_knots': ys, 'n': n, 'm': k}
    problems = []
    try:
        clamp = lambda v: ys[0] if v <= xs[0] else (ys[-1] if v >= xs[-1] else float(sy(float(v))))
        scale = max(1.0, max(abs(v) for v in ys))
        got = [float(sy(n)), [float(v) for v in sy(np.array([n, k]))]]
        info['sy(n)'] = got[0]
        info['sy(array([n, m]))'] = got[1]
        info['clamped function at n, m'] = [clamp(n), clamp(k)]
        if abs(got[0] - clamp(n)) > 1e-9 * scale:
            problems.append('sy(%d) = %r, the clamped function there is %r' % (n, got[0], clamp(n)))
        if abs(got[1][0] - clamp(n)) > 1e-9 * scale or abs(got[1][1] - clamp(k)) > 1e-9 * scale:
            problems.append('sy(array([%d, %d])) = %r, the clamped function gives %r' % (n, k, got[1], [clamp(n), clamp(k)]))
        inm = float(sy.integrate(n, k))
        fsy = real.SplineSpecificYield(xs, ys)
        area = numeric_area(lambda z: clamp(z), xs[0], xs[-1], float(n), float(k))
        info['integrate(n, m)'] = inm
        info['area_by_quadrature'] = area
        if abs(inm - area) > 1e-6 * scale * max(1.0, abs(n - k)):
            problems.append('integrate(%d, %d) = %r, quadrature of the clamped function gives %r' % (n, k, inm, area))
    except Exception as e:
        info['real_exception'] = '%s: %s' % (type(e).__name__, e)
        return False, info
    info['problems'] = problems
    return not problems, info


KNOTS = {4: ['-300', '-100', '50', '170'], 5: ['-300', '-100', '0', '50', '170'], 6: ['-291.7', '-183.1', '-15.74', '10.65', '38.78', '168.3']}


class C14(Check):
    pid = 'C14'

    def run(self):
        quick = self.tier == 'quick'
        self.unit('spowtd.spline', 'Spline.from_points', 'Spline.__call__', 'Spline.integrate', 'Spline.domain')
        self.unit('spowtd.specific_yield', 'SplineSpecificYield.__init__', 'SpecificYield.__call__', 'SpecificYield.integrate')
        nk = [4] if quick else [4, 5, 6]
        self.bounds = {'knots': nk, 'knot positions': 'symbolic strictly increasing reals (4 knots) and the concrete sets %s' % {k: KNOTS[k] for k in nk},
                       'knot values': 'any reals', 'limits a, b, c': 'any reals: every ordering relative to each other and to both ends'}
        self.assumptions = ['FITPACK contract: the order-3 interpolating spline is an (uninterpreted) function S with S(x_i)=y_i; its integral '
                            'between two points of the knot range is F(q)-F(p) for one antiderivative F; splint treats the spline as zero '
                            'outside the knot range (confirmed on the installed scipy by vf.conform and by the witness replays)']
        self.stubs = spline_common.STUBS
        self.outside = ['numerical accuracy of FITPACK itself', 'smoothing splines (s != 0): not used by spowtd']
        self.conform_fitpack()
        exp = symx.explore(harness_values, {'knots': 4}, name='values[knots=4,symbolic]')
        self.absorb(exp, need_paths=2)
        exp = symx.explore(harness_integral, {'knots': 4}, name='integrate[knots=4,symbolic]', engine_kw={'query_timeout_ms': 60000})
        self.absorb(exp, need_paths=20)
        exp = symx.explore(harness_int_levels, {'knots': 6, 'concrete_knots': KNOTS[6]}, name='integer_levels[knots=6,concrete]', engine_kw={'query_timeout_ms': 60000})
        self.absorb(exp, need_paths=9)
        for k in nk:
            exp = symx.explore(harness_integral, {'knots': k, 'concrete_knots': KNOTS[k], 'replay_every': 3 if quick else 2},
                               name='integrate[knots=%d,concrete]' % k, engine_kw={'query_timeout_ms': 60000})
            self.absorb(exp, need_paths=20)

    def conform_fitpack(self):
        """The FITPACK facts the stub relies on, on the installed scipy."""
        import numpy as np
        from scipy.interpolate import splrep, splev, splint
        x = np.array([-300.0, -100.0, 50.0, 170.0, 400.0])
        y = np.array([0.1, 0.3, 0.25, 0.6, 0.7])
        tck = splrep(x, y, s=0, k=3)
        probs = []
        if not (tck[0][0] == x[0] and tck[0][-1] == x[-1]):
            probs.append('end knots of tck are not the end points')
        if max(abs(splev(x, tck) - y)) > 1e-12:
            probs.append('splev does not interpolate')
        if abs(splint(450.0, 500.0, tck)) > 1e-12 or abs(splint(-500.0, -400.0, tck)) > 1e-12:
            probs.append('splint outside the knot range is not zero')
        if abs(splint(-400.0, 500.0, tck) - splint(-300.0, 400.0, tck)) > 1e-10:
            probs.append('splint does not clip to the knot range')
        if abs(splint(-300.0, 0.0, tck) + splint(0.0, 400.0, tck) - splint(-300.0, 400.0, tck)) > 1e-10:
            probs.append('splint is not additive')
        t1 = splrep(x, y, s=0, k=1)
        if abs(splint(-300.0, 400.0, t1) - float(np.trapezoid(y, x))) > 1e-10:
            probs.append('order-1 splint is not the trapezoid sum')
        self.extra['fitpack_contract_mismatches'] = probs
        for pb in probs:
            self.harness_errors.append('FITPACK contract does not hold on the installed scipy: ' + pb)

    def replay(self, failure):
        h = failure['harness']
        k = int(h.split('knots=')[1].split(',')[0].rstrip(']'))
        ctx = {'knots': k}
        if 'concrete' in h:
            ctx['concrete_knots'] = KNOTS[k]
        m = model_fractions(failure.get('model'))
        if h.startswith('values'):
            m.setdefault('a', m.get('v', 0))
            m.setdefault('b', 0)
            m.setdefault('c', 0)
        if h.startswith('integer_levels'):
            ok, info = replay_int_levels(ctx, m)
            if ok:
                # the solver's model fixes n, m and an interpretation of the uninterpreted S; knot values it
                # left at a default (all equal) make the real spline constant: retry with generic values
                generic = dict(m)
                generic.update({'y%d' % i: Fraction(v) for i, v in enumerate(['0.125', '0.375', '0.25', '0.625', '0.5', '0.875'])})
                ok, info = replay_int_levels(ctx, generic)
                info['note'] = 'knot values of the model replaced by generic ones (the model left them equal)'
        else:
            ok, info = replay_concrete(ctx, m)
            if ok and 'real_exception' not in info and len({m.get('y%d' % i, 0) for i in range(k)}) == 1:
                # as above: equal knot values make the real spline constant, whatever the model's S was
                generic = dict(m)
                generic.update({'y%d' % i: Fraction(v) for i, v in enumerate(['0.125', '0.375', '0.25', '0.625', '0.5', '0.875'][:k])})
                ok, info = replay_concrete(ctx, generic)
                info['note'] = 'knot values of the model replaced by generic ones (the model left them equal)'
        info['expected'] = failure.get('detail')
        info['label'] = failure.get('label')
        if failure.get('kind') == 'exception':
            return 'real_exception' in info and info['real_exception'].startswith(failure['detail'].split(':')[0]), info
        return not ok, info
