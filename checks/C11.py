"""C11 -- timestamps are converted exactly and bad input is refused.

Tier 1 (refusals): the real load_data on symsql (as in C10) with one defect planted in
an otherwise well-formed input -- an irregular rainfall step, an ET row missing for a
grid step, a dataset that already holds data -- must raise.
Tier 2 (time zones): the real generate_timestamped_rows with the *real pytz code*
(localize / normalize / fromutc / utcoffset, bisect over the zone's transition table)
running on a shim datetime whose wall clock is a symbolic integer number of seconds.
The stored epoch E must satisfy  offset_in_force_at(E) = L - E  with the offset looked
up directly in the zone's transition table.
"""

import bisect
import datetime
import io
import itertools
from fractions import Fraction

import z3

from vf import symx, symsql, loader, nplite, pipeline, synth
from vf.framework import Check, model_fractions
from checks import C10

EPOCH0 = datetime.datetime(1970, 1, 1)


def secs_of(dt):
    """Seconds since 1970-01-01 00:00:00 of a real naive datetime (its wall clock)."""
    d = dt - EPOCH0
    return d.days * 86400 + d.seconds


def td_secs(td):
    return td.days * 86400 + td.seconds


class SymDT:
    """Stand-in for datetime.datetime: wall clock = ``s`` seconds (symbolic integer)."""
    microsecond = 0

    def __init__(self, s, tzinfo=None):
        self.s = s
        self.tzinfo = tzinfo

    def replace(self, tzinfo='_keep', **kw):
        if kw:
            raise symx.ShimGap('SymDT.replace(%r)' % sorted(kw))
        return SymDT(self.s, self.tzinfo if tzinfo == '_keep' else tzinfo)

    def __add__(self, td):
        if isinstance(td, datetime.timedelta):
            return SymDT(self.s + td_secs(td), self.tzinfo)
        return NotImplemented

    __radd__ = __add__

    def __sub__(self, other):
        if isinstance(other, datetime.timedelta):
            return SymDT(self.s - td_secs(other), self.tzinfo)
        if isinstance(other, datetime.datetime) and other.tzinfo is None and self.tzinfo is None:
            return SymTD(self.s - secs_of(other))
        if isinstance(other, SymDT) and (other.tzinfo is None) == (self.tzinfo is None):
            a, b = self._key(other)
            return SymTD(a - b)
        raise symx.ShimGap('SymDT - %r' % type(other).__name__)

    def date(self):
        return SymDate(self.s // 86400)

    def _key(self, other):
        if isinstance(other, SymDT):
            if (self.tzinfo is None) != (other.tzinfo is None):
                raise TypeError("can't compare offset-naive and offset-aware datetimes")
            if self.tzinfo is None:
                return self.s, other.s
            return self.s - td_secs(self.tzinfo._utcoffset), other.s - td_secs(other.tzinfo._utcoffset)
        if isinstance(other, datetime.datetime):
            if self.tzinfo is None and other.tzinfo is None:
                return self.s, secs_of(other)
            raise symx.ShimGap('comparison of an aware SymDT with a real datetime')
        return None

    def __eq__(self, other):
        try:
            k = self._key(other)
        except TypeError:
            return False
        if k is None:
            return False
        return bool(k[0] == k[1])

    def __ne__(self, other):
        return not self.__eq__(other)

    def __lt__(self, other):
        k = self._key(other)
        return bool(k[0] < k[1])

    def __le__(self, other):
        k = self._key(other)
        return bool(k[0] <= k[1])

    def __gt__(self, other):
        k = self._key(other)
        return bool(k[0] > k[1])

    def __ge__(self, other):
        k = self._key(other)
        return bool(k[0] >= k[1])

    def __hash__(self):
        return 0

    def utcoffset(self):
        return None if self.tzinfo is None else self.tzinfo.utcoffset(self)

    def dst(self):
        return None if self.tzinfo is None else self.tzinfo.dst(self)

    def tzname(self):
        return None if self.tzinfo is None else self.tzinfo.tzname(self)

    def timestamp(self):
        if self.tzinfo is None:
            raise symx.ShimGap('timestamp() of a naive datetime depends on the machine time zone')
        off = self.tzinfo.utcoffset(self)
        return self.s - td_secs(off)

    def __repr__(self):
        return 'SymDT(%r, %r)' % (self.s, self.tzinfo)


class SymTD:
    """timedelta with a symbolic number of whole seconds."""

    def __init__(self, secs):
        self.secs = secs

    def total_seconds(self):
        return self.secs

    @property
    def days(self):
        return self.secs // 86400

    @property
    def seconds(self):
        return self.secs % 86400

    microseconds = 0


class SymDate:
    """Calendar date of a symbolic datetime; hashing it concretises the day number."""

    def __init__(self, day):
        self.day = day

    def __hash__(self):
        return hash(int(self.day)) if isinstance(self.day, symx.Sym) else hash(self.day)

    def __eq__(self, other):
        return isinstance(other, SymDate) and bool(self.day == other.day)

    def __ne__(self, other):
        return not self.__eq__(other)


class _DatetimeClass:
    """``datetime_mod.datetime`` as load.py uses it: strptime (and fromtimestamp for messages)."""

    def __init__(self, wall):
        self.wall = wall

    def strptime(self, text, fmt):
        if fmt != '%Y-%m-%d %H:%M:%S':
            raise symx.ShimGap('strptime format %r' % fmt)
        return SymDT(self.wall[text])

    def fromtimestamp(self, *a, **kw):
        return datetime.datetime.fromtimestamp(*a, **kw)


class DatetimeShim:
    def __init__(self, wall):
        self.datetime = _DatetimeClass(wall)
        self.timezone = datetime.timezone
        self.timedelta = datetime.timedelta


def zone_table(tz):
    """[(utc transition second, utcoffset seconds)] sorted; static zones: one entry."""
    if hasattr(tz, '_utc_transition_times'):
        out = []
        for t, info in zip(tz._utc_transition_times, tz._transition_info):
            try:
                sec = secs_of(t)
            except OverflowError:
                sec = -10 ** 12
            out.append((sec, td_secs(info[0])))
        return out
    return [(-10 ** 12, td_secs(tz.utcoffset(None) if tz.utcoffset(None) is not None else datetime.timedelta(0)))]


def harness_tz(eng, ctx):
    import pytz
    nplite.set_float_mode('R')
    tz = pytz.timezone(ctx['zone'])
    table = zone_table(tz)
    L = eng.int('wall_clock_s')
    lo, hi = ctx['range']
    eng.assume(L >= lo)
    eng.assume(L <= hi)
    shim = DatetimeShim({'<L>': L})
    ld = loader.load('spowtd.load', 'R')
    saved = ld.datetime_mod
    ld.datetime_mod = shim
    try:
        if ctx.get('earlier_zone'):
            # the same text was converted before, in this process, for a dataset in another (fixed-offset) zone
            list(ld.generate_timestamped_rows([['<L>', 'w']], pytz.timezone(ctx['earlier_zone'])))
        rows = list(ld.generate_timestamped_rows([['<L>', 'v']], tz))
    except symx.ShimGap:
        raise
    except Exception as e:
        # an exception is acceptable only for local times that do not exist
        exists = z3.Or(*[z3.And(L.z - off >= a, L.z - off < b) for (a, off), b in
                         zip(table, [t for t, _ in table[1:]] + [10 ** 13])])
        eng.prove(z3.Not(exists), 'C11: conversion fails for an existing local time', detail='%s: %s' % (type(e).__name__, e))
        return
    finally:
        ld.datetime_mod = saved
    E = rows[0][0]
    eng.prove(rows[0][1:] == ['v'], 'C11: the rest of the row is passed through')
    # offset in force at the UTC instant E, from the table
    starts = [t for t, _ in table]
    idx = 0
    for i in range(len(table) - 1, -1, -1):
        if E >= starts[i]:
            idx = i
            break
    off = table[idx][1]
    ok = (L - E) == off
    if isinstance(ok, symx.Sym) or not ok:
        # not a valid instant: allowed only when the local time does not exist at all
        exists = z3.Or(*[z3.And(L.z - o >= a, L.z - o < b) for (a, o), b in zip(table, starts[1:] + [10 ** 13])])
        if not bool(ok):
            eng.prove(z3.Not(exists), 'C11: stored instant renders back to the original local time',
                      detail='zone %s: L - E = %s, offset in force at E is %d s' % (ctx['zone'], L - E, off))
    else:
        eng.prove(True, 'C11: stored instant renders back to the original local time')
    eng.note({'t': 'reached'})
    if eng.stats.paths % ctx.get('replay_every', 9) == 0:
        w = eng.witness()
        if w is not None:
            okr, info = replay_tz(ctx['zone'], int(w['wall_clock_s']), ctx.get('earlier_zone'))
            eng.note({'t': 'witness', 'n': 1})
            if not okr:
                eng.note({'t': 'witness_mismatch', 'v': info})
            elif eng.stats.paths % 45 == 0:
                eng.note({'t': 'sample', 'v': info})


def harness_tz2(eng, ctx):
    """Two rows of one file, a little apart, around a transition of the zone: every row must
    be converted as if it were alone."""
    import pytz
    nplite.set_float_mode('R')
    tz = pytz.timezone(ctx['zone'])
    table = zone_table(tz)
    starts = [t for t, _ in table]
    L1 = eng.int('wall_clock_s')
    d = eng.int('gap_s')
    lo, hi = ctx['range']
    eng.assume(L1 >= lo)
    eng.assume(L1 <= hi)
    eng.assume(d >= 1)
    eng.assume(d <= 7200)
    L2 = L1 + d
    shim = DatetimeShim({'<L1>': L1, '<L2>': L2})
    ld = loader.load('spowtd.load', 'R')
    saved = ld.datetime_mod
    ld.datetime_mod = shim
    try:
        rows = list(ld.generate_timestamped_rows([['<L1>', 'a'], ['<L2>', 'b']], tz))
    except symx.ShimGap:
        raise
    except Exception as e:
        raise symx.PathAbort('conversion error paths are the single-row harness\'s business')
    finally:
        ld.datetime_mod = saved
    for (E, L, nm) in ((rows[0][0], L1, 'first'), (rows[1][0], L2, 'second')):
        idx = 0
        for i in range(len(table) - 1, -1, -1):
            if E >= starts[i]:
                idx = i
                break
        off = table[idx][1]
        if not bool((L - E) == off):
            exists = z3.Or(*[z3.And(L.z - o >= a, L.z - o < b) for (a, o), b in zip(table, starts[1:] + [10 ** 13])])
            eng.prove(z3.Not(exists), 'C11: every row of a file is converted exactly, whatever the other rows are',
                      detail='zone %s, %s of two rows: L - E = %s, offset in force at E is %d s' % (ctx['zone'], nm, L - E, off))
    eng.note({'t': 'reached'})


def replay_tz2(zone, L1, d):
    import pytz
    real = loader.real_module('spowtd.load')
    tz = pytz.timezone(zone)
    texts = [(EPOCH0 + datetime.timedelta(seconds=x)).strftime('%Y-%m-%d %H:%M:%S') for x in (L1, L1 + d)]
    info = {'zone': zone, 'rows': texts}
    try:
        rows = list(real.generate_timestamped_rows([[texts[0], 'a'], [texts[1], 'b']], tz))
    except Exception as e:
        info['error'] = '%s: %s' % (type(e).__name__, e)
        return False, info
    table = zone_table(tz)
    starts = [t for t, _ in table]
    bad = False
    info['epochs'] = [r[0] for r in rows]
    info['rendered_back'] = []
    for (E, L, text) in ((rows[0][0], L1, texts[0]), (rows[1][0], L1 + d, texts[1])):
        back = datetime.datetime.fromtimestamp(E, tz).strftime('%Y-%m-%d %H:%M:%S')
        info['rendered_back'].append(back)
        exists = any(a <= L - o < b for (a, o), b in zip(table, starts[1:] + [10 ** 13]))
        if back != text and exists:
            bad = True
    return bad, info


def replay_tz(zone, L, earlier_zone=None):
    """Real generate_timestamped_rows on the text of local time L; the stored instant must
    render back to the same text (when the local time exists).  With earlier_zone the same text
    is first converted for that zone, as a load of another dataset in the same process would."""
    import pytz
    real = loader.real_module('spowtd.load')
    tz = pytz.timezone(zone)
    text = (EPOCH0 + datetime.timedelta(seconds=L)).strftime('%Y-%m-%d %H:%M:%S')
    info = {'zone': zone, 'local_time': text}
    if earlier_zone:
        info['converted_before_for_zone'] = earlier_zone
    try:
        if earlier_zone:
            list(real.generate_timestamped_rows([[text, 'w']], pytz.timezone(earlier_zone)))
        rows = list(real.generate_timestamped_rows([[text, 'v']], tz))
    except Exception as e:
        info['error'] = '%s: %s' % (type(e).__name__, e)
        return False, info
    E = rows[0][0]
    back = datetime.datetime.fromtimestamp(E, tz).strftime('%Y-%m-%d %H:%M:%S')
    info.update(epoch=E, rendered_back=back)
    if back == text:
        return True, info
    # does the local time exist at all?
    table = zone_table(tz)
    starts = [t for t, _ in table]
    exists = any(a <= L - o < b for (a, o), b in zip(table, starts[1:] + [10 ** 13]))
    info['local_time_exists'] = exists
    return (not exists), info


# ---- tier 1: refusals ------------------------------------------------------------------------
def harness_refusal(eng, ctx):
    nplite.set_float_mode('R')
    m = pipeline.sym_modules('R')
    cfg = C10.make_config(eng, ctx)
    kind = ctx['kind']
    s = cfg['s']
    lt = sorted(cfg['level_t'])
    inside = [t for t in cfg['rain_t'] if lt[0] <= t <= lt[-1]]
    if len(inside) < (4 if kind == 'irregular_rain' else 3):
        # the irregularity must be visible among the rain instants that form the grid (any two
        # instants are trivially uniform): at least three of them remain after removing one
        raise symx.PathAbort('too few rain instants inside the level span')
    if kind == 'irregular_rain':
        k = 1 + eng.choose(len(inside) - 2, 'which')
        how = eng.choose(2, 'how')
        if how == 0:
            cfg['rain_t'] = [t for t in cfg['rain_t'] if t != inside[k]]          # a row is missing
        else:
            cfg['rain_t'] = [t + (s // 3 if t == inside[k] else 0) for t in cfg['rain_t']]   # a row is late
    elif kind in ('missing_et', 'mistyped_et'):
        k = eng.choose(len(inside), 'which')
        cfg['et_t'] = [t for t in cfg['et_t'] if t != inside[k]]
        if kind == 'mistyped_et':
            # the row is there but its timestamp is off the grid (e.g. 02:03 typed for 02:30)
            cfg['et_t'] = sorted(cfg['et_t'] + [inside[k] + s // 3])
    texts, rain, et, lev = C10.make_texts(eng, cfg)
    conn = symsql.Connection()
    try:
        if kind == 'populated':
            m['load'].load_data(conn, io.StringIO(texts[0]), io.StringIO(texts[1]), io.StringIO(texts[2]), 'UTC')
            before = pipeline.sym_dump(conn)
        try:
            m['load'].load_data(conn, io.StringIO(texts[0]), io.StringIO(texts[1]), io.StringIO(texts[2]), 'UTC')
        except Exception as e:
            if kind == 'populated':
                after = pipeline.sym_dump(conn)
                eng.prove({k: len(v) for k, v in before.items()} == {k: len(v) for k, v in after.items()},
                          'C11: a refused second load leaves the dataset as it was')
            eng.note({'t': 'reached'})
            eng.note({'t': 'sample', 'v': {'kind': kind, 'refused_with': '%s: %s' % (type(e).__name__, str(e)[:80])}})
            return
    finally:
        symsql.TOKENS.clear()
    eng.prove(False, 'C11: bad input is refused (%s)' % kind,
              detail='rain %r et %r level %r' % ([t - C10.ORIGIN for t in cfg['rain_t']], [t - C10.ORIGIN for t in cfg['et_t']],
                                                [t - C10.ORIGIN for t in cfg['level_t']]))
    for name, t in (('cfg_rain', cfg['rain_t']), ('cfg_et', cfg['et_t']), ('cfg_level', cfg['level_t'])):
        pass


def replay_refusal(kind, detail):
    """Real `spowtd load` on the configuration recorded in the failure detail."""
    import re
    mm = re.match(r'rain (\[.*?\]) et (\[.*?\]) level (\[.*?\])', detail or '')
    if not mm:
        return False, {'error': 'configuration not recorded'}
    rain_t, et_t, level_t = (eval(g) for g in mm.groups())
    mk = lambda ts, hdr, f: '\n'.join([hdr] + ['%s,%s' % (synth.fmt_time(C10.ORIGIN + t), f(i)) for i, t in enumerate(ts)]) + '\n'
    texts = (mk(rain_t, 'Datetime,P', lambda i: '0.5'), mk(et_t, 'Datetime,ET', lambda i: '0.1'), mk(level_t, 'Datetime,WL', lambda i: repr(10.0 + i)))
    info = {'kind': kind, 'rain_epochs': rain_t, 'et_epochs': et_t, 'level_epochs': level_t}
    with pipeline.RealRun(texts) as rr:
        err = rr.load()
        if kind == 'populated' and err is None:
            err = rr.load()
        info['observed'] = None if err is None else '%s: %s' % (type(err).__name__, str(err)[:120])
    return err is None, info


QUICK_ZONES = ['UTC', 'Etc/GMT+5', 'Africa/Lagos', 'Europe/London', 'America/New_York', 'Asia/Kathmandu',
               'Australia/Lord_Howe', 'Asia/Tehran']


def zone_range(zone, quick):
    import pytz
    tz = pytz.timezone(zone)
    table = zone_table(tz)
    if len(table) <= 1:
        return (-2 * 10 ** 9, 4 * 10 ** 9)
    ts = [t for t, _ in table if t > -10 ** 11]
    y2012, y2024 = secs_of(datetime.datetime(2012, 1, 1)), secs_of(datetime.datetime(2024, 1, 1))
    if quick:
        # quick: every second of 2012-2024 (the zone's recent rules)
        return (y2012, y2024)
    lo = max(min(ts) - 86400 * 400, -3 * 10 ** 9) if ts else -2 * 10 ** 9
    hi = max(max(ts) + 86400 * 400 if ts else y2024, y2024)
    return (lo, hi)


def _tz2_task(args):
    zone, rng = args
    return symx.explore(harness_tz2, {'zone': zone, 'range': rng}, name='two_rows[%s]' % zone, workers=1, wall_limit_s=600, max_paths=20000)


def transition_windows(zone, quick):
    """Wall-clock windows of +-5000 s around the last transitions of the zone before 2024."""
    import pytz
    tz = pytz.timezone(zone)
    table = zone_table(tz)
    y2024 = secs_of(datetime.datetime(2024, 1, 1))
    ts = [(t, o) for t, o in table if -10 ** 11 < t < y2024]
    out = []
    for t, o in ts[-(2 if quick else 6):]:
        out.append((t + o - 5000, t + o + 5000))
    return out


EARLIER_ZONE = 'Etc/GMT+5'


def _tz_task(args):
    zone, rng, replay_every = args[:3]
    earlier = args[3] if len(args) > 3 else None
    return symx.explore(harness_tz, {'zone': zone, 'range': rng, 'replay_every': replay_every, 'earlier_zone': earlier},
                        name='timezone%s[%s]' % ('_after_another_zone' if earlier else '', zone), workers=1, wall_limit_s=600, max_paths=20000)


class C11(Check):
    pid = 'C11'

    def run(self):
        import pytz
        quick = self.tier == 'quick'
        self.unit('spowtd.load', 'generate_timestamped_rows', 'load_data', 'populate_grid_time', 'populate_evapotranspiration')
        zones = list(QUICK_ZONES)
        if not quick:
            zones = sorted(set(pytz.common_timezones) | set(QUICK_ZONES))
        else:
            # VERIF_SEED picks two extra zones
            extra = sorted(set(pytz.common_timezones) - set(zones))
            for i in range(2):
                zones.append(extra[(self.seed * 7919 + i * 104729) % len(extra)])
        self.bounds = {'zones': len(zones), 'zone list (first 12)': zones[:12],
                       'local wall clock': 'every whole second in 2012-2024 (quick) / the whole span of the zone table +- 400 days (thorough)',
                       'refusals': 'C10 configurations with one planted defect'}
        self.assumptions = ['strptime (C code) is replaced by a shim that accepts the format %Y-%m-%d %H:%M:%S only; a changed format is seen only by replays',
                            'local times that do not exist (inside a DST gap) are excluded: the harness proves on such paths that no instant renders to them',
                            'ambiguous local times may map to either of their two instants']
        self.stubs = ['datetime -> SymDT (wall clock a z3 Int); pytz: the real library code runs on it', 'sqlite3 -> vf.symsql; numpy -> vf.nplite (refusals)']
        self.outside = ['sub-second timestamps', 'tzdata versions other than the installed pytz', 'irregular rainfall steps that leave fewer than three rain instants inside the level span (any two instants are uniform)']
        import multiprocessing as mp
        tasks = [(z, zone_range(z, quick), 7) for z in zones]
        # the same conversions when the text was converted before for a dataset in another zone (one process, two loads)
        tasks += [(z, zone_range(z, quick), 7, EARLIER_ZONE) for z in (zones[:10] if quick else zones[:40]) if z != EARLIER_ZONE]
        from vf.framework import run_tasks
        lost = lambda t, why: self.harness_errors.append('zone %s: no result: %s' % (t[0], why))
        if True:
            for exp in run_tasks(_tz_task, tasks, 16, lost, timeout_s=900 if quick else 3600):
                self.absorb(exp, need_paths=1)
        tasks2 = [(z, w) for z in zones[:10] for w in transition_windows(z, quick)]
        if True:
            for exp in run_tasks(_tz2_task, tasks2, 16, lost, timeout_s=900 if quick else 3600):
                self.absorb(exp, need_paths=1)
        self.bounds['earlier conversion'] = 'the first %d zones again after the same text was converted for %s in the same process' % (10 if quick else 40, EARLIER_ZONE)
        self.bounds['two rows'] = '%d windows of +-5000 s around zone transitions, second row 1..7200 s later' % len(tasks2)
        ctx = C10.ctx_for(self.tier, self.seed)
        ctx['orders'] = ['sorted']
        ctx['ratios'] = ['1', '2/3']
        ctx['max_missing'] = 1
        for kind in ('irregular_rain', 'missing_et', 'mistyped_et', 'populated'):
            c = dict(ctx, kind=kind)
            if kind == 'populated':
                c['offsets'] = c['offsets'][:2]
            exp = symx.explore(harness_refusal, c, name='refusal[%s]' % kind)
            self.absorb(exp, need_paths=2)

    def replay(self, failure):
        h = failure['harness']
        if h.startswith('two_rows'):
            zone = h.split('[')[1].rstrip(']')
            m = model_fractions(failure.get('model'))
            bad, info = replay_tz2(zone, int(m.get('wall_clock_s', 0)), int(m.get('gap_s', 1)))
            info['expected'] = failure.get('detail')
            return bad, info
        if h.startswith('timezone'):
            zone = h.split('[')[1].rstrip(']')
            m = model_fractions(failure.get('model'))
            ok, info = replay_tz(zone, int(m.get('wall_clock_s', 0)), EARLIER_ZONE if h.startswith('timezone_after_another_zone') else None)
            info['expected'] = failure.get('detail')
            return not ok, info
        kind = h.split('[')[1].rstrip(']')
        return replay_refusal(kind, failure.get('detail'))
