#!/usr/bin/env python
"""Entry point of every registered check:  run_check.py C07 --tier quick|thorough [--replay path]"""
import argparse
import importlib
import json
import os
import subprocess
import sys

HERE = os.path.dirname(os.path.abspath(__file__))
VENV_PY = os.path.join(HERE, '.venv', 'bin', 'python')


def ensure_venv():
    if os.path.realpath(sys.executable) != os.path.realpath(VENV_PY) or not sys.prefix.startswith(os.path.join(HERE, '.venv')):
        if not os.path.exists(VENV_PY):
            subprocess.check_call([os.path.join(HERE, 'setup.sh')])
        if sys.prefix != os.path.join(HERE, '.venv'):
            os.execv(VENV_PY, [VENV_PY, os.path.abspath(__file__)] + sys.argv[1:])


def main():
    ensure_venv()
    sys.path.insert(0, HERE)
    ap = argparse.ArgumentParser()
    ap.add_argument('pid')
    ap.add_argument('--tier', default=os.environ.get('VERIF_TIER', 'quick'), choices=['quick', 'thorough'])
    ap.add_argument('--replay')
    args = ap.parse_args()
    seed = int(os.environ.get('VERIF_SEED', '0') or 0)
    os.chdir(HERE)
    mod = importlib.import_module('checks.' + args.pid)
    cls = getattr(mod, args.pid)
    chk = cls(args.tier, seed)
    if args.replay:
        with open(args.replay) as f:
            rec = json.load(f)
        rep, info = chk.replay(rec['failure'])
        print(json.dumps(info, indent=1, default=str))
        if rep:
            print('VIOLATION property=%s replay=%s' % (args.pid, args.replay))
            return 1
        print('not reproduced on the current tree')
        return 0
    from vf import symx
    budget = float(os.environ.get('VERIF_CHECK_BUDGET_S', '2400' if args.tier == 'quick' else '28800'))
    symx.DEADLINE = __import__('time').time() + budget
    try:
        chk.run()
    except (KeyboardInterrupt, SystemExit):
        raise
    except BaseException as e:      # ShimGap and the engine's control exceptions are BaseExceptions
        import traceback
        traceback.print_exc()
        chk.harness_errors.append('check crashed: %s: %s' % (type(e).__name__, e))
    return chk.finish()


if __name__ == '__main__':
    try:
        code = main()
    except SystemExit:
        raise
    except BaseException as e:      # anything the check itself did not turn into a verdict is a harness error, never exit 1
        import traceback
        traceback.print_exc()
        print('HARNESS-ERROR %s: check could not run: %s: %s' % (sys.argv[1] if len(sys.argv) > 1 else '?', type(e).__name__, str(e)[:300]))
        code = 3
    sys.exit(code)
