#!/bin/bash
# usage: tools/refactor_matrix.sh <outdir> [parallel]
# Every behaviour-preserving refactoring in refactorings/ (see refactorings/JOBS.txt: "<name> <check> ...")
# against the quick tier of the checks that execute the touched code.  Expected: exit 0 everywhere.
out=$1; par=${2:-3}; mkdir -p $out
export VERIF_CHECK_BUDGET_S=${VERIF_CHECK_BUDGET_S:-1500}
grep -v '^#' /verif/refactorings/JOBS.txt | xargs -P $par -d '\n' -n 1 bash -c 'set -- $0; n=$1; shift; /verif/tools/tryeq.sh '$out'/$n.log /verif/refactorings/$n/patch.diff "$@"'
cat $out/*.log > $out/ALL.log
