#!/bin/bash
# usage: tools/tryeq.sh <logfile> <patch.diff> <check id> ...
# A behaviour-preserving refactoring must leave every check at exit 0 (no VIOLATION, no harness error).
log=$1; patch=$2; shift 2
for chk in "$@"; do
  echo "=== refactoring $patch vs $chk" >> $log
  /verif/tools/tryseed.sh $patch $chk quick >> $log 2>&1
done
