#!/bin/bash
# usage: tools/run_all.sh quick|thorough [ids...]  -- run the registered commands one after another, report exit codes and wall time
tier=$1; shift
ids=${@:-C01 C02 C03 C04 C05 C06 C07 C08 C09 C10 C11 C12 C13 C14 C15 C16 C17 C18 C19 C20}
cd "$(dirname "$0")/.."
for id in $ids; do
  s=$(date +%s)
  python3 run_check.py $id --tier $tier > /tmp/runall_$id.$tier.log 2>&1
  rc=$?
  e=$(date +%s)
  echo "$id $tier exit=$rc wall=$((e-s))s $(grep -c VIOLATION /tmp/runall_$id.$tier.log) violation lines; $(tail -1 /tmp/runall_$id.$tier.log | cut -c1-160)"
done
