#!/usr/bin/env python3
"""Collect the outcome of tools/seed_matrix.sh runs into seeded/RESULTS.md and the meta.json files.
usage: seed_results.py <matrix log> ..."""
import json, os, re, sys
res = {}
for path in sys.argv[1:]:
    cur = None
    for line in open(path):
        m = re.match(r'=== seed (\S+) vs (\S+)', line)
        if m:
            cur = (m.group(1), m.group(2))
            res[cur] = {'violations': [], 'exit': None, 'harness_errors': 0, 'known': 0}
            continue
        if cur is None:
            continue
        if line.startswith('VIOLATION'):
            res[cur]['violations'].append(None)
        elif line.startswith('  ') and '::' in line and res[cur]['violations'] and res[cur]['violations'][-1] is None:
            res[cur]['violations'][-1] = line.strip().split('|')[2] if line.count('|') >= 2 else line.strip()[:100]
        elif line.startswith('HARNESS-ERROR'):
            res[cur]['harness_errors'] += 1
            res[cur].setdefault('first_harness_error', line.strip()[:220])
        elif line.startswith('exit='):
            res[cur]['exit'] = int(line.strip().split('=')[1])
root = os.path.join(os.path.dirname(os.path.abspath(__file__)), '..', 'seeded')
by_seed = {}
for (seed, chk), r in res.items():
    by_seed.setdefault(seed, []).append((chk, r))
lines = ['# Seeded changes against the quick tier', '',
         'One row per (seeded change, check) run with `tools/tryseed.sh` (scratch worktree of /repo with the patch applied).',
         'exit 1 = VIOLATION line with a counterexample replayed on the patched real code; exit 3 = harness error (no verdict); exit 0 = not noticed.', '',
         '| seed | check | exit | first violated obligation / note |', '|---|---|---|---|']
for seed in sorted(by_seed):
    for chk, r in sorted(by_seed[seed]):
        note = next((v for v in r['violations'] if v), '') or r.get('first_harness_error', '')
        lines.append('| %s | %s | %s | %s |' % (seed, chk, r['exit'], note.replace('|', '/')[:160]))
    meta = os.path.join(root, seed, 'meta.json')
    if os.path.exists(meta):
        m = json.load(open(meta))
        m['checked_with'] = [{'check': c, 'tier': 'quick', 'exit': r['exit'], 'violations_reported': len(r['violations']),
                              'first_violation': next((v for v in r['violations'] if v), None)} for c, r in sorted(by_seed[seed])]
        m['caught_by'] = [c for c, r in sorted(by_seed[seed]) if r['exit'] == 1]
        json.dump(m, open(meta, 'w'), indent=1)
open(os.path.join(root, 'RESULTS.md'), 'w').write('\n'.join(lines) + '\n')
caught = sum(1 for s in by_seed if any(r['exit'] == 1 for _, r in by_seed[s]))
print('%d seeds, %d caught (exit 1 by at least one check), %d no verdict only, %d missed' % (
    len(by_seed), caught, sum(1 for s in by_seed if not any(r['exit'] == 1 for _, r in by_seed[s]) and any(r['exit'] == 3 for _, r in by_seed[s])),
    sum(1 for s in by_seed if all(r['exit'] == 0 for _, r in by_seed[s]))))
