#!/bin/bash
# usage: tools/trymut.sh <check id> <tier> <file under /repo> <python-regex> <replacement>
# applies one textual mutation to /repo, runs the check, restores the file.
pid=$1; tier=$2; file=$3; pat=$4; rep=$5
cp /repo/$file /tmp/_mut_backup.$$ 
python3 - "$file" "$pat" "$rep" <<'PY'
import re,sys
f,pat,rep=sys.argv[1:]
p='/repo/'+f
s=open(p).read()
n=len(re.findall(pat,s))
if n!=1:
    print('MUTATION PATTERN MATCHES',n,'times'); 
s2=re.sub(pat,rep,s,count=1)
open(p,'w').write(s2)
PY
VERIF_EVIDENCE_DIR=/tmp/wt/ev-trial VERIF_REPLAY_DIR=/tmp/wt/ev-trial timeout 3000 python3 /verif/run_check.py $pid --tier $tier 2>&1 | grep -E "VIOLATION|HARNESS-ERROR|^C[0-9]+ |::" | cut -c1-400 | head -12
echo "exit=${PIPESTATUS[0]}"
cp /tmp/_mut_backup.$$ /repo/$file; rm -f /tmp/_mut_backup.$$
git -C /repo status --short | head -3
