#!/usr/bin/env python3
"""Collect tools/refactor_matrix.sh logs into refactorings/RESULTS.md.  usage: refactor_results.py <ALL.log>"""
import os, re, sys
rows = []
cur = None
for line in open(sys.argv[1]):
    m = re.match(r'=== refactoring \S*/refactorings/(\S+)/patch.diff vs (\S+)', line)
    if m:
        cur = [m.group(1), m.group(2), None, '']
        rows.append(cur)
    elif cur is not None and line.startswith('exit='):
        cur[2] = int(line.strip().split('=')[1])
    elif cur is not None and (line.startswith('HARNESS-ERROR') or line.startswith('VIOLATION')) and not cur[3]:
        cur[3] = line.strip()[:160].replace('|', '/')
out = ['# Behaviour-preserving refactorings against the quick tier', '',
       'One row per (refactoring, check) run with `tools/tryeq.sh` in a scratch worktree.  Expected: exit 0 everywhere.', '',
       '| refactoring | check | exit | first message if not 0 |', '|---|---|---|---|']
for r in sorted(rows):
    out.append('| %s | %s | %s | %s |' % (r[0], r[1], r[2], r[3] if r[2] else ''))
out.append('')
out.append('%d runs, %d with exit 0.' % (len(rows), sum(1 for r in rows if r[2] == 0)))
root = os.path.join(os.path.dirname(os.path.abspath(__file__)), '..', 'refactorings')
open(os.path.join(root, 'RESULTS.md'), 'w').write('\n'.join(out) + '\n')
print(out[-1])
