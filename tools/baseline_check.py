#!/usr/bin/env python3
"""Run the repository test suite in a directory and report which of the 33 baseline
(stable_pass) tests do not pass.  usage: baseline_check.py <repo dir>"""
import json, subprocess, sys, tempfile, os
import xml.etree.ElementTree as ET
repo = sys.argv[1]
base = json.load(open('/root/.vp/BASELINE.json'))
want = set(base['stable_pass'])
with tempfile.TemporaryDirectory() as d:
    x = os.path.join(d, 'j.xml')
    subprocess.run(['/venv/bin/python', '-m', 'pytest', '-q', '-p', 'no:cacheprovider', '--timeout=900',
                    '--continue-on-collection-errors', '--junitxml=' + x], cwd=repo, stdout=subprocess.DEVNULL, stderr=subprocess.DEVNULL)
    passed = set()
    for tc in ET.parse(x).getroot().iter('testcase'):
        name = '%s::%s' % (tc.get('classname'), tc.get('name'))
        if not any(c.tag in ('failure', 'error', 'skipped') for c in tc):
            passed.add(name)
missing = sorted(want - passed)
print('baseline: %d/%d pass; %d other tests pass' % (len(want & passed), len(want), len(passed - want)))
for m in missing:
    print('  NOT PASSING:', m[:120])
sys.exit(1 if missing else 0)
