#!/bin/bash
# usage: tools/seed_matrix_all.sh <outdir> [parallel]   -- every seeded change against the quick tier of its property's check
# (plus the cross-property pairs listed in seeded/CROSS.txt), each in its own scratch worktree; logs in <outdir>/<seed>__<check>.log
out=$1; par=${2:-4}; mkdir -p $out
pairs=""
for d in /verif/seeded/C*-*; do s=$(basename $d); pairs="$pairs $s:${s%-*}"; done
[ -f /verif/seeded/CROSS.txt ] && pairs="$pairs $(grep -v '^#' /verif/seeded/CROSS.txt | tr '\n' ' ')"
export VERIF_CHECK_BUDGET_S=${VERIF_CHECK_BUDGET_S:-900}
echo $pairs | tr ' ' '\n' | grep . | xargs -P $par -I{} bash -c 'p={}; s=${p%%:*}; c=${p##*:}; /verif/tools/seed_matrix.sh '$out'/${s}__${c}.log $p'
cat $out/*.log > $out/ALL.log
