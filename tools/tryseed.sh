#!/bin/bash
# usage: tools/tryseed.sh <patch.diff> <check id> [tier]
# Runs a check against a scratch worktree of /repo with the seeded change applied (SPOWTD_REPO),
# so that /repo itself is never modified and several trials can run side by side.
patch=$1; pid=$2; tier=${3:-quick}
wt=/tmp/wt/try-$pid-$$
git -C /repo worktree add -q --detach $wt HEAD || exit 2
git -C $wt apply $patch 2>/tmp/apply.err.$$ || git -C $wt apply --3way $patch || { echo "APPLY FAILED"; cat /tmp/apply.err.$$; git -C /repo worktree remove --force $wt; exit 2; }
mkdir -p /tmp/wt/ev-$$
SPOWTD_REPO=$wt VERIF_EVIDENCE_DIR=/tmp/wt/ev-trial VERIF_REPLAY_DIR=/tmp/wt/ev-trial timeout 3000 python3 /verif/run_check.py $pid --tier $tier 2>&1 | grep -E "VIOLATION|HARNESS-ERROR|KNOWN|^C[0-9]+ |::" | cut -c1-300 | head -8
echo "exit=${PIPESTATUS[0]}"
git -C /repo worktree remove --force $wt; rm -f /tmp/apply.err.$$
