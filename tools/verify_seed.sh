#!/bin/bash
# usage: tools/verify_seed.sh <seed source dir with patch.diff demo.py README.txt> <property id> <n>
# Confirms in a scratch worktree: patch applies to /repo HEAD, the baseline tests still pass with it,
# demo.py fails with it and passes without it.  Copies the seed to /verif/seeded/<pid>-<n>/ with meta.json.
src=$1; pid=$2; n=$3
wt=/tmp/wt/verify-$pid-$n
dest=/verif/seeded/$pid-$n
rm -rf $wt; git -C /repo worktree prune; git -C /repo worktree add -q --detach $wt HEAD || exit 2
cd $wt
res_apply=ok; git apply --check $src/patch.diff 2>/tmp/apply.$$ || res_apply="FAILED: $(head -c 300 /tmp/apply.$$)"
demo_clean=$(PYTHONPATH=$wt timeout 600 /venv/bin/python $src/demo.py >/tmp/demo_clean.$$ 2>&1; echo $?)
tests=skipped; demo_patched=na
if [ "$res_apply" = ok ]; then
  git apply $src/patch.diff
  demo_patched=$(PYTHONPATH=$wt timeout 600 /venv/bin/python $src/demo.py >/tmp/demo_patched.$$ 2>&1; echo $?)
  tests=$(python3 /verif/tools/baseline_check.py $wt 2>&1 | tr '\n' ' ')
fi
mkdir -p $dest; cp $src/patch.diff $src/demo.py $dest/; [ -f $src/README.txt ] && cp $src/README.txt $dest/
python3 - "$pid" "$n" "$res_apply" "$demo_clean" "$demo_patched" "$tests" "$dest" <<'PY'
import json,sys
pid,n,ap,dc,dp,tests,dest=sys.argv[1:]
meta={'property':pid,'seed':int(n),'applies_to_repo_head':ap,'demo_exit_on_clean_tree':int(dc),'demo_exit_on_patched_tree':(int(dp) if dp!='na' else None),
      'baseline_tests_with_patch':tests,'confirmed': ap=='ok' and dc=='0' and dp not in ('0','na') and 'baseline: 33/33' in tests,
      'ran':['git apply --check','demo.py on clean worktree','demo.py on patched worktree','pytest on the baseline test files with the patch']}
try:
    meta['needs']=open(dest+'/README.txt').read()[:1500]
except Exception: pass
json.dump(meta,open(dest+'/meta.json','w'),indent=1)
print(pid,n,'apply:',ap,'demo clean/patched:',dc,dp,'tests:',tests)
PY
cd /; git -C /repo worktree remove --force $wt; rm -f /tmp/*.$$
