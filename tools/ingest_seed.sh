#!/bin/bash
# usage: tools/ingest_seed.sh <agent worktree> <pid>   -- verifies _out/1 and _out/2, stores them as the next free seeded/<pid>-<n>, runs the quick check
wt=$1; pid=$2; log=/tmp/ingest-$pid.log; : > $log
for k in 1 2; do
  [ -f $wt/_out/$k/patch.diff ] || continue
  n=1; while [ -d /verif/seeded/$pid-$n ]; do n=$((n+1)); done
  /verif/tools/verify_seed.sh $wt/_out/$k $pid $n >> $log 2>&1
  echo "=== seed $pid-$n vs $pid" >> $log
  /verif/tools/tryseed.sh /verif/seeded/$pid-$n/patch.diff $pid quick >> $log 2>&1
done
echo "=== done" >> $log
