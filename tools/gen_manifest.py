#!/usr/bin/env python3
"""Assemble /verif/MANIFEST.json from the table below (kept in one place so that
the manifest stays valid while checks are added)."""
import json
import os

HERE = os.path.dirname(os.path.dirname(os.path.abspath(__file__)))

TECH = 'dynamic symbolic execution of the real spowtd functions (symx over z3): path-exhaustive within bounds, every obligation an SMT unsat verdict, counterexamples replayed on the real code'

CHECKS = {
    'C01': dict(
        text='Bounded symbolic model checking of the real classify.match_storms call tree: every feasible control-flow path for records of up to N samples (N=7 quick, 9 thorough) with real-valued rain, level and thresholds is executed; any exception on any path, a repeated storm or rise, or a pair without a common time step is a violation with a concrete model replayed on the real code.',
        note='R-mode (reals, not doubles); numpy replaced by vf.nplite; records longer than N samples are outside; set.pop() order is universally explored.',
        ref='5/C01'),
    'C02': dict(
        text='Three symbolic harnesses on the real code: (A) find_stable_matching on every candidate relation up to 3x3 (quick: 2x2, 3x2, 2x3) with symbolic integer preferences incl. ties, every consistent candidate-list order and every set.pop order -- obligations: one-to-one, no blocking pair, and (under no ties) weakly better for every storm than every other stable matching (all alternative matchings enumerated, each an SMT implication); (B) disambiguate_matching hands over the documented preference structure; (C) match_storms on symbolic data with blocking pairs recomputed from the run structure.',
        note='Preferences in A are arbitrary integers; B ties them to duration / start agreement on a start grid of 4 with symbolic stops; C is bounded by N samples (7 quick, 8 thorough).',
        ref='5/C02'),
    'C03': dict(
        text='Same exploration as C01 with the maximal-run oracle: for every returned storm/rise each member step is proved above its threshold and both neighbours at or below it (SMT obligations over the symbolic data on every path), N<=7 quick / 9 thorough.',
        note='R-mode reading of the two strict comparisons; function level (match_storms); the SQL view storm_total_rain_depth is covered only when the DB-level harness is present.  DB level (C01, C03, C04): states with all validity patterns of G+1 instants, plus one stretch boundary between two neighbouring instants that both carry a level (after instant 1 or 2 quick, any interior position thorough).',
        ref='5/C03'),
    'C04': dict(
        text='All pairs of boolean flag vectors up to length N (7 quick, 9 thorough) through the real get_mystery_jump_mask and get_true_interval_masks; the resulting unexplained-rise and interstorm flags are proved equal to a declarative expansion of the property text, and the runs equal to the maximal True runs.  DB level: classify_intervals on symsql from any Inv_load state (G=4 at 1800 s; G=3 at 2700 s and 7200 s, steps that do not divide an hour): flag rows and interstorm intervals against the same declarative definitions over symbolic rain and level.',
        note='R-mode reading of rate > threshold; Inv_load constructor compared with the real load on every validity pattern at each run.',
        ref='5/C04'),
    'C05': dict(
        text='find_offsets executed on every connected incidence pattern of up to 3 series x 3 levels (quick; 4x4 thorough) with symbolic real crossing values; numpy.linalg.solve is exact elimination on the concrete rational normal matrix.  Obligations (LRA validity): per-series residual sums against the level means are zero (stationarity of a convex quadratic = global minimum), any other stationary offset vector differs by a constant, every series sharing a level gets exactly one offset; for 2 series additionally the sum-of-squares inequality as an NRA query; the patterns up to 3 series are run once more after an alignment of the same shape with shifted interval ids in the same process (state carried between calls; replayed in a new interpreter).  Table level: `rise` / `recession` on symsql (with and without a reference level) on the C13 patterned records: residual sums of the stored offsets and crossings against the stored master curve are zero.',
        note='R-mode; overlap graph assumed connected (the caller guarantee proved in C08); datasets large enough to reach a size-dependent code path (none exists on the unchanged tree) are outside.',
        ref='5/C05'),
    'C08': dict(
        text='(a) get_connected_components / split_mapping_by_keys on every series-by-level incidence pattern (3x3 quick, 4x4 thorough) and level order: groups equal the true chains of overlap and the kept group is a largest one.  (b) get_series_time_offsets run twice on the same symbolic series (concrete level patterns from a small value set, symbolic abscissae): second run permuted (all permutations) with an arbitrary per-series axis shift; obligations: same intervals included, the included set is one whole group, offset+crossing of every interval at every level differs between the runs by one common constant, master curve likewise.  Shapes: 2+2, 2+2+2, 3+2, 3+3 series per group (thorough adds 2+2+2+2 and longer level patterns); two equally large groups and a main body of one interval are separate labelled obligations.',
        note='R-mode; level values concrete (control flow depends only on them), abscissae and shifts symbolic reals; two open known findings (a single-interval main body raises ValueError; with two equally large groups the kept one depends on the presentation order).',
        ref='5/C08'),
    'C07': dict(
        text='(a1) the real classify_intervals on symsql at two symbolic integer origins e and e+delta with the same symbolic record (all validity patterns, G grid steps): every table equal up to the shift, by SMT/structural equality per cell; (a2) the whole workflow (classify, set-zeta-grid, rise, recession) on a planted record at two symbolic origins; (b) bit-precise: the rise flags that classify_interstorms computes for symbolic Float64 water levels and threshold at origins e and e+k*step (32-bit epochs via bit-vector twins) are captured and proved equal by an origin-cone decomposition over one-shot QF_BVFP queries; the increment threshold match_all_storms hands to match_storms is captured and compared the same way; witness replays through the real CLI at two dates.',
        note='(a) over the reals; (b) IEEE doubles for the rate computation only; zeta and threshold in [2**-10, 1e6]; steps 1200/1800 s quick, 600..3600 s thorough; when the code keeps absolute time out of float expressions (b) is discharged structurally, otherwise the solver searches for origins and data and may end inconclusive (exit 3), never as success.',
        ref='5/C07'),
    'C09': dict(
        text='F: the real compute_rise_offsets / compute_offsets run in symsql on a planted dataset with a symbolic reference ref = fl(k*step) (k a symbolic integer with a bit-vector twin, |k| <= 1024 quick / 32768 thorough, 7 / 11 grid steps): proved by one-shot QF_BVFP queries that the reference is not refused and that the level index used as dictionary key equals k; half-way references fl((2k+1)*step/2) and references 3e-6 of a step off a multiple (|k| <= 128 quick) are proved to be refused.  R: with symbolic rain depths, for every level k of the curve the master-curve view is proved zero at k*step, and at the highest level without a reference.',
        note='F: only the reference block is bit-precise (data are exact rationals); off-grid is exercised on half-way points only; a multiple no interval crosses (KeyError) is outside; R over the reals.',
        ref='5/C09'),
    'C14': dict(
        text='Spline / SplineSpecificYield executed with FITPACK replaced by its contract (uninterpreted interpolating S and antiderivative F, splint clipping to the knot range): for symbolic strictly increasing knots (4) and concrete knot sets (4, thorough 5 and 6), symbolic knot values and symbolic limits a,b,c in every ordering relative to each other and to both ends: value at every knot, constancy outside, integrate(a,b)=G(b)-G(a) for the antiderivative G of the clamped function, additivity and antisymmetry -- each an SMT obligation per path; levels and limits given as Python integers or integer arrays (symbolic Int) give the same values.',
        note='The FITPACK facts assumed are checked on the installed scipy at every run; FITPACK accuracy itself is outside; witness replays compare the real code with quadrature of the real function.',
        ref='5/C14'),
    'C15': dict(
        text='SplineTransmissivity executed with quad replaced by an uninterpreted integral whose integrand is evaluated at one symbolic point (one path per linear piece), exp/log uninterpreted with exp(log t)=t: proved for symbolic knots (2-3 quick, 4 thorough), conductivities and level: T_min at and below the lowest knot, otherwise exactly one integral up to the level from the lowest knot (or from a higher knot at or below the level, with the whole layers below it added as their exact value, the logarithmic mean of the two conductivities times the thickness), integrand = exp(linear interpolant of log K) > 0, result T_min + integral; array and scalar calls produce identical terms, also for an array that is neither ascending nor descending and for integer arrays; no exception up to the highest knot.',
        note='Monotonicity/continuity follow from the proved facts plus additivity of integrals; QUADPACK accuracy is only sampled at witness replays (closed form, 1e-6).',
        ref='5/C15'),
    'C10': dict(
        text='The real load_data runs on symsql from in-memory CSV texts whose timestamps are concrete and whose values are tokens resolved to symbolic reals by the staging tables: every loaded number is a term over the source values.  The engine enumerates the configurations (level record offset, 5 sampling ratios incl. finer and coarser than rainfall, up to 1-2 missing rows, row orders); per path the grid, every rainfall/ET row, every water level (= linear interpolation of the two adjacent samples), the absence of levels inside gaps and the label structure are SMT obligations against a reference computed from the configuration alone.',
        note='R-mode; UTC; foreign keys enforced as load requests; at least two level rows and two rain instants in span; the closing instant beyond the record end has no required label.',
        ref='5/C10'),
    'C11': dict(
        text='Time zones: the real generate_timestamped_rows with the real pytz code (localize/normalize/fromutc, bisect over the transition table) runs on a shim datetime whose wall clock is a symbolic integer; for every path (position of the local time among the zone transitions) the stored epoch E is proved to satisfy offset_in_force_at(E) = L - E with the offset read from the zone table; non-existent local times are recognised (proved to have no valid instant) and excluded.  8 zones + 2 seed-chosen, every second of 2012-2024 quick; all common zones over the whole table thorough; the first 10 (40) zones once more after the same text was converted for another zone in the same process; a two-row variant (second row 1..7200 s later, windows around transitions) proves that a row is converted independently of the other rows.  Refusals: the C10 harness with a planted irregular rain step, a missing or mistyped (off-grid) ET row, or a second load must raise, the last leaving the dataset unchanged.',
        note='strptime is C code: replaced by a shim accepting the ISO format only; irregular rain must be visible among >= 3 rain instants inside the level span.',
        ref='5/C11'),
    'C17': dict(
        text='compute_rise_curve on a symbolic increasing grid (3 levels quick, 4 thorough) anywhere relative to the concrete knots of a spline specific yield with symbolic knot values: W_j - W_i = G(z_j) - G(z_i) for the antiderivative G of the clamped function, mean = requested mean, differences at shared levels unchanged when a level is inserted, monotone under non-negative knot values.  simulate_rise on a symsql dataset whose interval offsets are symbolic (measured curve symbolic): output structure, level order, measured column, simulated differences = integrate between the view levels, mean of simulated = mean of measured, both output forms; witness replays through the real CLI compare with quadrature.',
        note='FITPACK contract as C14; yaml.dump records the object; text rendering belongs to C19.',
        ref='5/C17'),
    'C18': dict(
        text='compute_recession_curve on a symbolic grid with symbolic ET and curvature: one integral per cell with the right limits, integrand at a symbolic probe point proved equal to Sy/(-ET - curvature*T), denominator negative, cumulative structure and mean.  simulate_recession / dump_simulated_recession on a symsql dataset with every ET cell symbolic: the ET handed to the curve is proved to be the average over all steps inside the recession intervals of the master curve (also on a record with an interstorm interval that is not assembled into the curve), curvature and mean conversions, rows highest-to-lowest in mm with measured (days) and simulated columns; both output forms; witness replays on the real CLI.',
        note='quad uninterpreted; reversal/refinement invariance and the zero-curvature identity follow from the proved per-cell structure by additivity/linearity of integrals (not re-proved); conductivity positive (C15).',
        ref='5/C18'),
    'C06': dict(
        text='Function level: crossing values T(h)+c_i with symbolic common curve T and shifts c_i through the real find_offsets on every connected overlap pattern (3x3 quick): o_i + c_i constant, aligned crossings equal the curve up to the origin.  Workflow level: the real command-line dispatch user_interface.main (load, classify, set-zeta-grid, rise, recession) with sqlite3 bound to symsql and the workflow modules loaded from the current sources, on planted records (recession piecewise linear on the lattice) whose storm intensities are tokens Sy x planted value with a symbolic specific yield: rise curve differences = Sy x level differences, aligned rise segments on one storage line, recession curve = planted curve up to the origin, aligned pieces coincide; 3 configurations quick (incl. a coarse grid where a storm crosses no level), 6 thorough.',
        note='R-mode; level record exact on the lattice; set.pop order fixed in the workflow harness; curved truths and longer records are outside.',
        ref='5/C06'),
    'C13': dict(
        text='The real classify -> set-zeta-grid -> rise / recession run on symsql on patterned records whose water levels are pattern + symbolic d in (0, 1/8) mm (or exactly on the pattern) and whose storm intensities are symbolic: control flow is fixed by the pattern, every stored number is a term.  Per crossing row: its interval is a classified interval of the right kind, its level is in the grid, a rise crossing satisfies the segment equation from zero depth at its initial level to the depth of its own storm at its final level, a recession crossing is the mean of the chord crossings of its own samples (NRA implication per row), only own levels are reported; the grid covers the observed range; views equal the table means; plus the table-level C05 oracle.  Configurations (a curated list, each proved non-vacuous by a reachability witness): four level patterns, grid steps 1, 1/2 (2 and 5 thorough), a reference level, a hole in the level record, a coarse grid with a rise crossing no level, set-zeta-grid repeated after the curves were assembled.',
        note='R-mode; four concrete level patterns; brentq contract = root strictly inside with the chord equation as a lazy fact; single-interval levels are dropped by the code (C08 finding) -- rows present are checked.',
        ref='5/C13'),
    'C16': dict(
        text='Transmissivity: PeatclsmTransmissivity with every parameter and the level symbolic (power function uninterpreted): value term equals Ksmacz0 pow(zeta_max - w/10, 1-alpha)/(100(alpha-1)), ValueError iff w/10 > zeta_max, array = scalar, the array handed in is left unchanged and gives the same values when evaluated again.  Specific yield: the real _construct_spline/get_Sy_soil/campbell_1d_az with symbolic sd, theta_s, b (normal cdf and pow uninterpreted), psi_s concrete (-0.024 quick; six values thorough): all 201 tabulated values compared term by term with a transcription of the R reference (200- or 201-layer sum accepted), order-1 spline linear in between and constant beyond; a second object built in the same process with the same soil parameters and another symbolic sd must be right too (the first level that is not the profile is reported with a model and replayed).',
        note='Rscript is absent: "reproduces the R reference" is checked against a transcription of the R file, numerically at the published parameters; the symbolic table costs ~1-2 min of z3 term construction per psi_s value (80802 Campbell cells).',
        ref='5/C16'),
    'C19': dict(
        text='The real pestfiles generators and simulate commands run on a symsql dataset with symbolic interval offsets; formatting a term leaves a token (term, spec) in the text.  Obligations: declared counts = lines, parameter names = template placeholders (case-insensitive), filled template parses back to the parameters, k-th observation token is the k-th master-curve value with >= 17 significant digits, named e_k, the instruction file walks the simulator output and its k-th extraction is the value simulated at the level of the k-th observation (two neighbouring simulated values left unordered), both parameterisations, rise and curves, also when an earlier call in the same process used another precision.  The width of the instruction window is decided by a z3 integer model of the length of a printed double; the model is turned into a concrete double and replayed through the real yaml.dump (open known finding: window 22 characters, numbers up to 24).',
        note='R-mode tokens; simulated numbers opaque; PEST itself outside.',
        ref='5/C19'),
    'C20': dict(
        level='fault_enumeration',
        text='The real user_interface.main runs each step (classify, set-zeta-grid, set-curvature, rise, recession) on a real SQLite file with sqlite3 rebound to a statement-counting proxy: for every statement index k of every step (executemany unrolled, commits included) and both fault kinds (raise OperationalError / kill the process in a forked child so that the next open goes through hot-journal recovery) the file afterwards equals its previous content or the complete result, and the step can be re-run to the complete result; all 12 orders of the independent steps (plus one failed attempt at every position, thorough) give the same final dump; repeating a step that already completed (every step, with and without a fault in the repetition) leaves the complete result.  k, kind, step, order and position are engine choices whose ranges are closed by the solver.',
        note='Data concrete (planted record with a hole in the level record and a rainless jump to the record maximum); durability below the SQLite API and load are outside.',
        technique='fault enumeration on the real code and a real SQLite file, fault index / kind / order chosen and exhausted by the symx engine (z3 closes each range)',
        ref='5/C20'),
    'C12': dict(
        text='regrid and build_head_mapping executed on symbolic series (2..3 samples quick, 4 thorough; |y|/step <= 2; x any strictly increasing reals; several concrete steps) with interp1d/brentq replaced by their contracts; every yielded item is proved to be the next expected level of its pair, between the two samples and on the chord; nothing missing, nothing extra.  Bit-precise: for steps with exactly representable multiples (1, 0.5, 3, 75, 49 ...) a sample y = k*step (|k| <= 1024 quick) and one half a step higher go through the real build_head_mapping/regrid up to np.ceil: the series in step units is proved to be exactly k and inside (k, k+1] (one-shot QF_BVFP).',
        note='R-mode for the main harness; brentq contract = root strictly between the end points when signs differ; the nonlinear chord equation is kept as a lazy fact used only by obligations; numerical accuracy of scipy is outside (witness replays compare with the exact crossing to 1e-6).',
        ref='5/C12'),
}

NOT_YET = 'check not built yet in this session (work in progress; see DESIGN.md section 8)'


def main():
    props = [json.loads(l) for l in open(os.path.join(HERE, 'properties.jsonl'))]
    checks = []
    na = []
    for p in props:
        pid = p['id']
        c = CHECKS.get(pid)
        if c is None:
            na.append({'property_id': pid, 'reason': NOT_YET})
            continue
        checks.append({
            'property_id': pid,
            'quick_cmd': 'python3 run_check.py %s --tier quick' % pid,
            'thorough_cmd': 'python3 run_check.py %s --tier thorough' % pid,
            'evidence_file': 'evidence/%s.json' % pid,
            'replay_cmd_template': 'python3 run_check.py %s --replay {path}' % pid,
            'engine': 'symx',
            'level_claimed': {'category': c.get('level', 'model_checking'), 'text': c['text'],
                              'design_ref': 'DESIGN.md section ' + c['ref']},
            'level_note': c['note'],
            'technique': c.get('technique', TECH),
        })
    manifest = {
        'version': 1,
        'setup_cmd': './setup.sh',
        'hooks': {
            'guard': 'SPOWTD_VERIF',
            'enable': 'no hooks: checks load /repo sources at run time through vf.loader (AST-instrumented copies in memory); nothing in /repo is guarded',
            'baseline_off_cmd': 'cd /repo && /venv/bin/python -m pytest -q -p no:cacheprovider --timeout=900 --continue-on-collection-errors',
            'source_commits': [],
            'add_only': True,
        },
        'engines': [
            {'name': 'symx', 'path': 'vf/symx.py', 'serves_properties': sorted(CHECKS),
             'kind_free_text': 'purpose-built dynamic symbolic executor (re-execution with decision prefixes) over the z3 Python API; vf.loader instruments /repo sources at run time; vf.nplite / vf.libstubs / vf.symsql are the environment contracts'},
        ],
        'checks': checks,
        'not_applicable': na,
        'notes': 'Exit codes: 0 held, 1 reproduced violation (VIOLATION line), 3 harness error / no verdict (shim gap, non-reproducing model, incomplete exploration, time budget VERIF_CHECK_BUDGET_S used up). known_findings.json lists open findings and fixed defects. seeded/RESULTS.md: 80 seeded changes against the quick tier; refactorings/RESULTS.md: 20 behaviour-preserving refactorings (no alarm expected); crosscheck/REPORT.json: sampled queries re-solved by cvc5 and z3 4.8.12 (tools/crosscheck.py, not part of the registered commands).',
    }
    with open(os.path.join(HERE, 'MANIFEST.json'), 'w') as f:
        json.dump(manifest, f, indent=1)
    print('MANIFEST.json: %d checks, %d not_applicable' % (len(checks), len(na)))


if __name__ == '__main__':
    main()
