#!/usr/bin/env python3
"""Assemble /verif/MANIFEST.json from the table below (kept in one place so that
the manifest stays valid while checks are added)."""
import json
import os

HERE = os.path.dirname(os.path.dirname(os.path.abspath(__file__)))

TECH = 'dynamic symbolic execution of the real spowtd functions (symx over z3): path-exhaustive within bounds, every obligation an SMT unsat verdict, counterexamples replayed on the real code'

CHECKS = {
    'C01': dict(
        text='Bounded symbolic model checking of the real classify.match_storms call tree: every feasible control-flow path for records of up to N samples (N=7 quick, 9 thorough) with real-valued rain, level and thresholds is executed; any exception on any path, a repeated storm or rise, or a pair without a common time step is a violation with a concrete model replayed on the real code.',
        note='R-mode (reals, not doubles); numpy replaced by vf.nplite; records longer than N samples and the SQL layer are outside this harness; set.pop() order is universally explored.',
        ref='5/C01'),
}

NOT_YET = 'check not built yet in this session (work in progress; see DESIGN.md section 8)'


def main():
    props = [json.loads(l) for l in open(os.path.join(HERE, 'properties.jsonl'))]
    checks = []
    na = []
    for p in props:
        pid = p['id']
        c = CHECKS.get(pid)
        if c is None:
            na.append({'property_id': pid, 'reason': NOT_YET})
            continue
        checks.append({
            'property_id': pid,
            'quick_cmd': 'python3 run_check.py %s --tier quick' % pid,
            'thorough_cmd': 'python3 run_check.py %s --tier thorough' % pid,
            'evidence_file': 'evidence/%s.json' % pid,
            'replay_cmd_template': 'python3 run_check.py %s --replay {path}' % pid,
            'engine': 'symx',
            'level_claimed': {'category': c.get('level', 'model_checking'), 'text': c['text'],
                              'design_ref': 'DESIGN.md section ' + c['ref']},
            'level_note': c['note'],
            'technique': c.get('technique', TECH),
        })
    manifest = {
        'version': 1,
        'setup_cmd': './setup.sh',
        'hooks': {
            'guard': 'SPOWTD_VERIF',
            'enable': 'no hooks: checks load /repo sources at run time through vf.loader (AST-instrumented copies in memory); nothing in /repo is guarded',
            'baseline_off_cmd': 'cd /repo && /venv/bin/python -m pytest -q -p no:cacheprovider --timeout=900 --continue-on-collection-errors',
            'source_commits': [],
            'add_only': True,
        },
        'engines': [
            {'name': 'symx', 'path': 'vf/symx.py', 'serves_properties': sorted(CHECKS),
             'kind_free_text': 'purpose-built dynamic symbolic executor (re-execution with decision prefixes) over the z3 Python API; vf.loader instruments /repo sources at run time; vf.nplite / vf.libstubs / vf.symsql are the environment contracts'},
        ],
        'checks': checks,
        'not_applicable': na,
        'notes': 'Exit codes: 0 held, 1 reproduced violation (VIOLATION line), 3 harness error. known_findings.json lists open findings and fixed defects.',
    }
    with open(os.path.join(HERE, 'MANIFEST.json'), 'w') as f:
        json.dump(manifest, f, indent=1)
    print('MANIFEST.json: %d checks, %d not_applicable' % (len(checks), len(na)))


if __name__ == '__main__':
    main()
