#!/usr/bin/env python3
"""Validate MANIFEST.json and every evidence file against the schemas (run with python3-vt)."""
import json, glob, sys
import jsonschema
ok = True
jsonschema.validate(json.load(open('/verif/MANIFEST.json')), json.load(open('/root/.vp/MANIFEST.schema.json')))
sch = json.load(open('/root/.vp/EVIDENCE.schema.json'))
for f in sorted(glob.glob('/verif/evidence/*.json')):
    try:
        jsonschema.validate(json.load(open(f)), sch)
    except Exception as e:
        ok = False
        print('INVALID', f, str(e)[:200])
print('manifest and %d evidence files %s' % (len(glob.glob('/verif/evidence/*.json')), 'valid' if ok else 'HAVE PROBLEMS'))
sys.exit(0 if ok else 1)
