#!/bin/bash
# usage: tools/seed_matrix.sh <logfile> <seed-id:check> ...   e.g. C01-1:C01
log=$1; shift
for pair in "$@"; do
  seed=${pair%%:*}; chk=${pair##*:}
  pid=${seed%-*}; n=${seed#*-}
  patch=/verif/seeded/$seed/patch.diff
  echo "=== seed $seed vs $chk" >> $log
  /verif/tools/tryseed.sh $patch $chk >> $log 2>&1
done
echo "=== done" >> $log
