#!/usr/bin/env python3
"""Second opinion on the solver verdicts ("diff two solvers once per encoding change").

Runs the quick tier of the given checks with VERIF_DUMP_SMT set, so that vf.symx writes a sample of
the queries it decided (every 40th per worker process, every floating-point query; at most 150 per process) as SMT-LIB2 together
with the verdict of the z3 wheel, then re-solves every dumped query with

  * cvc5 (the 1.4.0 wheel installed into .venv by setup.sh), and
  * the distribution's z3 4.8.12 binary (/usr/bin/z3), a different build of z3,

and compares.  A sat/unsat disagreement is reported and makes the tool exit 1; `unknown`, time-outs and
parse errors of the second solver are counted, never taken for agreement.

usage: .venv/bin/python tools/crosscheck.py [C01 C05 ...]      (default: all 20)
writes crosscheck/REPORT.json
"""
import glob
import json
import multiprocessing as mp
import os
import shutil
import subprocess
import sys
import tempfile
import time

HERE = os.path.dirname(os.path.dirname(os.path.abspath(__file__)))
TLIMIT_MS = 60000


RESERVED = ('exp', 'sin', 'cos', 'tan', 'sqrt', 'pow', 'pow2', 'pi', 'arcsin', 'arccos', 'arctan', 'csc', 'sec', 'cot', 'iand', 'int.pow2')


def cvc5_verdict(text):
    import cvc5
    import re
    # uninterpreted functions of the encoding whose names cvc5 reserves for its own theories
    for name in RESERVED:
        if re.search(r'\(declare-fun %s ' % re.escape(name), text):
            text = re.sub(r'(?<=[( ])%s(?=[ )])' % re.escape(name), 'uf_' + name.replace('.', '_'), text)
    slv = cvc5.Solver()
    slv.setOption('tlimit-per', str(TLIMIT_MS))
    slv.setLogic('ALL')
    parser = cvc5.InputParser(slv)
    parser.setStringInput(cvc5.InputLanguage.SMT_LIB_2_6, text, 'query')
    sm = parser.getSymbolManager()
    out = 'none'
    while True:
        cmd = parser.nextCommand()
        if cmd.isNull():
            break
        r = cmd.invoke(slv, sm)
        r = str(r).strip()
        if r in ('sat', 'unsat', 'unknown'):
            out = r
    return out


def z3_old_verdict(path):
    try:
        p = subprocess.run(['/usr/bin/z3', '-T:%d' % (TLIMIT_MS // 1000), path], capture_output=True, text=True, timeout=TLIMIT_MS / 1000 + 10)
    except subprocess.TimeoutExpired:
        return 'timeout'
    lines = [l.strip() for l in p.stdout.splitlines() if l.strip()]
    if any(l.startswith('(error') for l in lines):
        return 'error'
    for l in lines:
        if l in ('sat', 'unsat', 'unknown', 'timeout'):
            return l
    return 'none'


def one(path):
    text = open(path).read()
    want = text.split('\n', 1)[0].split(':')[1].strip()
    try:
        c = cvc5_verdict(text)
    except BaseException as e:      # parse errors of the other solver are a result, not a crash
        c = 'error: %s' % (str(e)[:120],)
    z = z3_old_verdict(path) if os.path.exists('/usr/bin/z3') else 'absent'
    return path, want, c, z


def main():
    ids = sys.argv[1:] or ['C%02d' % i for i in range(1, 21)]
    scratch = tempfile.mkdtemp(prefix='verif-crosscheck-')
    report = {'sampling': 'every %s-th decided query of each worker process, at most %s per process' % (
        os.environ.get('VERIF_DUMP_EVERY', '40'), os.environ.get('VERIF_DUMP_MAX', '150')),
        'second_solvers': ['cvc5 1.4.0 (python wheel, logic ALL)', 'z3 4.8.12 (/usr/bin/z3)'],
        'time_limit_ms': TLIMIT_MS, 'checks': {}}
    bad = 0
    try:
        for pid in ids:
            d = os.path.join(scratch, pid)
            env = dict(os.environ, VERIF_DUMP_SMT=d, VERIF_EVIDENCE_DIR=os.path.join(scratch, 'ev'), VERIF_REPLAY_DIR=os.path.join(scratch, 'ev'))
            t0 = time.time()
            p = subprocess.run([sys.executable, os.path.join(HERE, 'run_check.py'), pid, '--tier', 'quick'], env=env, capture_output=True, text=True)
            files = sorted(glob.glob(os.path.join(d, '*.smt2')))
            with mp.Pool(16) as pool:
                rows = pool.map(one, files, chunksize=4)
            r = {'check_exit': p.returncode, 'check_wall_s': round(time.time() - t0, 1), 'queries': len(rows), 'z3_wheel': {'sat': 0, 'unsat': 0},
                 'cvc5': {'agree': 0, 'disagree': 0, 'unknown': 0, 'error': 0}, 'z3_4.8.12': {'agree': 0, 'disagree': 0, 'unknown': 0, 'error': 0},
                 'fp_queries': sum(1 for f in files if os.path.basename(f).startswith('fp-')), 'disagreements': []}
            for path, want, c, z in rows:
                r['z3_wheel'][want] += 1
                for name, got in (('cvc5', c), ('z3_4.8.12', z)):
                    if got == want:
                        r[name]['agree'] += 1
                    elif got in ('sat', 'unsat'):
                        r[name]['disagree'] += 1
                        keep = os.path.join(HERE, 'crosscheck', 'disagree-%s-%s' % (pid, os.path.basename(path)))
                        shutil.copy(path, keep)
                        r['disagreements'].append({'solver': name, 'z3_wheel': want, 'other': got, 'query': os.path.relpath(keep, HERE)})
                        bad += 1
                    elif got.startswith('error'):
                        r[name]['error'] += 1
                        r.setdefault('first_error_' + name, got)
                    else:
                        r[name]['unknown'] += 1
            report['checks'][pid] = r
            print('%s: %d queries (%d FP); cvc5 agree %d / disagree %d / unknown %d / error %d; z3-4.8 agree %d / disagree %d / unknown %d / error %d' % (
                pid, len(rows), r['fp_queries'], r['cvc5']['agree'], r['cvc5']['disagree'], r['cvc5']['unknown'], r['cvc5']['error'],
                r['z3_4.8.12']['agree'], r['z3_4.8.12']['disagree'], r['z3_4.8.12']['unknown'], r['z3_4.8.12']['error']), flush=True)
            shutil.rmtree(d, ignore_errors=True)
    finally:
        shutil.rmtree(scratch, ignore_errors=True)
    os.makedirs(os.path.join(HERE, 'crosscheck'), exist_ok=True)
    path = os.path.join(HERE, 'crosscheck', 'REPORT.json')
    if sys.argv[1:] and os.path.exists(path):
        # a partial run updates the entries of the checks it ran and keeps the others
        try:
            old = json.load(open(path))
            merged = dict(old.get('checks', {}))
            merged.update(report['checks'])
            report['checks'] = dict(sorted(merged.items()))
            report['note'] = 'entries come from runs at different times; each run replaces the entries of the checks it was given'
        except Exception:
            pass
    tot = lambda n, k: sum(c[n][k] for c in report['checks'].values())
    report['total'] = {'queries': sum(c['queries'] for c in report['checks'].values()),
                       'cvc5': {k: tot('cvc5', k) for k in ('agree', 'disagree', 'unknown', 'error')},
                       'z3_4.8.12': {k: tot('z3_4.8.12', k) for k in ('agree', 'disagree', 'unknown', 'error')}}
    json.dump(report, open(os.path.join(HERE, 'crosscheck', 'REPORT.json'), 'w'), indent=1)
    print('total', json.dumps(report['total']))
    sys.exit(1 if bad else 0)


if __name__ == '__main__':
    main()
